package main

// Asynchrony rewriting: goroutines the library starts and the operations they block in are
// put under the simulator's scheduler.
//
//	go f(a, b)            ->  { __vf := f; __va0 := a; __va1 := b; verifyield.Go(func() { __vf(__va0, __va1) }) }
//	x := <-ch             ->  __vtN := verifyield.Blocking(); x := <-ch; verifyield.Unblocked(__vtN)
//	ch <- v, wg.Wait(), time.Sleep(d): the same bracket
//	select { case ...: }  ->  __vtN := verifyield.Blocking(); select { case ...: verifyield.Unblocked(__vtN); ... }
//	if v, ok := <-ch; ok  ->  the bracket opens before the if and closes at the top of both branches
//	for v := range ch {}  ->  for { __vtN := Blocking(); v, __vokN := <-ch; Unblocked(__vtN); if !__vokN { break }; ... }
//	time.AfterFunc(d, f)  ->  time.AfterFunc(d, verifyield.Wrap(f))
//
// Blocking() tells the scheduler that the running task may block outside its control (it then
// schedules someone else and learns through synctest.Wait when the bubble has settled);
// Unblocked() parks the task until the scheduler picks it again. Without type information the
// rewriter is syntactic: a range statement is recognised as a channel range when its operand
// is an identifier declared with a channel type or made with make(chan ...) in the enclosing
// function, or a selector whose field is declared with a channel type in the package. What it
// cannot rewrite it reports on stderr and leaves alone.

import (
	"fmt"
	"go/ast"
	"go/token"
	"os"
	"strconv"
)

func vy(name string, args ...ast.Expr) *ast.CallExpr {
	return &ast.CallExpr{Fun: &ast.SelectorExpr{X: ast.NewIdent("verifyield"), Sel: ast.NewIdent(name)}, Args: args}
}

func (p *pkgInfo) collectChanFields(f *ast.File) {
	ast.Inspect(f, func(n ast.Node) bool {
		if st, ok := n.(*ast.StructType); ok && st.Fields != nil {
			for _, fl := range st.Fields.List {
				if _, isChan := fl.Type.(*ast.ChanType); isChan {
					for _, nm := range fl.Names {
						p.chanFields[nm.Name] = true
					}
				}
			}
		}
		return true
	})
}

func isMakeChan(e ast.Expr) bool {
	c, ok := e.(*ast.CallExpr)
	if !ok || len(c.Args) == 0 {
		return false
	}
	if id, ok := c.Fun.(*ast.Ident); !ok || id.Name != "make" {
		return false
	}
	_, isChan := c.Args[0].(*ast.ChanType)
	return isChan
}

// chansOf returns the identifiers of channel type visible in body (plus the outer ones).
func (p *pkgInfo) chansOf(body *ast.BlockStmt, outer map[string]bool) map[string]bool {
	m := map[string]bool{}
	for k := range outer {
		m[k] = true
	}
	ast.Inspect(body, func(n ast.Node) bool {
		switch x := n.(type) {
		case *ast.AssignStmt:
			for i, r := range x.Rhs {
				if i < len(x.Lhs) && isMakeChan(r) {
					if id, ok := x.Lhs[i].(*ast.Ident); ok {
						m[id.Name] = true
					}
				}
			}
		case *ast.ValueSpec:
			_, typed := x.Type.(*ast.ChanType)
			for i, nm := range x.Names {
				if typed || (i < len(x.Values) && isMakeChan(x.Values[i])) {
					m[nm.Name] = true
				}
			}
		case *ast.FuncType:
			if x.Params != nil {
				for _, fl := range x.Params.List {
					if _, isChan := fl.Type.(*ast.ChanType); isChan {
						for _, nm := range fl.Names {
							m[nm.Name] = true
						}
					}
				}
			}
		}
		return true
	})
	return m
}

func (p *pkgInfo) isChanExpr(e ast.Expr) bool {
	switch x := e.(type) {
	case *ast.Ident:
		return p.chans[x.Name]
	case *ast.SelectorExpr:
		// a struct field of channel type declared in this package, or the C of a time.Ticker / time.Timer
		return p.chanFields[x.Sel.Name] || x.Sel.Name == "C"
	case *ast.ParenExpr:
		return p.isChanExpr(x.X)
	}
	return false
}

// wrapAfterFunc rewrites time.AfterFunc(d, f) in the shallow part of body (nested function
// literals are handled when they are instrumented themselves).
func (p *pkgInfo) wrapAfterFunc(body *ast.BlockStmt) {
	ast.Inspect(body, func(n ast.Node) bool {
		if _, ok := n.(*ast.FuncLit); ok {
			return false
		}
		c, ok := n.(*ast.CallExpr)
		if !ok || len(c.Args) != 2 {
			return true
		}
		s, ok := c.Fun.(*ast.SelectorExpr)
		if !ok || s.Sel.Name != "AfterFunc" {
			return true
		}
		if id, ok := s.X.(*ast.Ident); !ok || id.Name != "time" {
			return true
		}
		if w, ok := c.Args[1].(*ast.CallExpr); ok {
			if ws, ok := w.Fun.(*ast.SelectorExpr); ok && ws.Sel.Name == "Wrap" {
				return true
			}
		}
		c.Args[1] = vy("Wrap", c.Args[1])
		p.changed++
		return true
	})
}

// blocksShallow reports whether the nodes contain a channel receive, a zero-argument Wait()
// call or time.Sleep outside nested function literals.
func blocksShallow(nodes ...ast.Node) bool {
	hit := false
	for _, e := range nodes {
		if e == nil || isNilNode(e) {
			continue
		}
		ast.Inspect(e, func(n ast.Node) bool {
			if hit {
				return false
			}
			switch x := n.(type) {
			case *ast.FuncLit:
				return false
			case *ast.UnaryExpr:
				if x.Op == token.ARROW {
					hit = true
				}
			case *ast.CallExpr:
				if s, ok := x.Fun.(*ast.SelectorExpr); ok {
					if s.Sel.Name == "Wait" && len(x.Args) == 0 {
						hit = true
					}
					if id, ok := s.X.(*ast.Ident); ok && id.Name == "time" && s.Sel.Name == "Sleep" {
						hit = true
					}
				}
			}
			return !hit
		})
	}
	return hit
}

func (p *pkgInfo) newTok() (*ast.Ident, ast.Stmt, ast.Stmt) {
	p.tmp++
	p.changed++
	name := "__vt" + strconv.Itoa(p.tmp)
	open := &ast.AssignStmt{Lhs: []ast.Expr{ast.NewIdent(name)}, Tok: token.DEFINE, Rhs: []ast.Expr{vy("Blocking")}}
	closeSt := &ast.ExprStmt{X: vy("Unblocked", ast.NewIdent(name))}
	return ast.NewIdent(name), open, closeSt
}

func unblockStmt(tok *ast.Ident) ast.Stmt {
	return &ast.ExprStmt{X: vy("Unblocked", ast.NewIdent(tok.Name))}
}

// rewriteAsync returns the statements that replace st.
func (p *pkgInfo) rewriteAsync(st ast.Stmt) []ast.Stmt {
	if lb, ok := st.(*ast.LabeledStmt); ok {
		r := p.rewriteAsync(lb.Stmt)
		if len(r) == 1 && r[0] == lb.Stmt {
			return []ast.Stmt{st}
		}
		// the label stays on the statement that can be the target of break/continue: the
		// loop, select or if itself (the last for/select/if among the replacements)
		idx := -1
		for i, x := range r {
			switch x.(type) {
			case *ast.ForStmt, *ast.RangeStmt, *ast.SelectStmt, *ast.IfStmt, *ast.SwitchStmt, *ast.TypeSwitchStmt:
				idx = i
			}
		}
		if idx < 0 {
			idx = len(r) - 1
		}
		lb.Stmt = r[idx]
		r[idx] = lb
		return r
	}
	switch s := st.(type) {
	case *ast.GoStmt:
		return []ast.Stmt{p.rewriteGo(s)}
	case *ast.SendStmt:
		_, o, c := p.newTok()
		return []ast.Stmt{o, st, c}
	case *ast.ExprStmt, *ast.AssignStmt, *ast.DeclStmt, *ast.IncDecStmt:
		if blocksShallow(st) {
			_, o, c := p.newTok()
			return []ast.Stmt{o, st, c}
		}
	case *ast.SelectStmt:
		if len(s.Body.List) == 0 {
			return []ast.Stmt{st}
		}
		tok, o, _ := p.newTok()
		for _, cc := range s.Body.List {
			cl := cc.(*ast.CommClause)
			cl.Body = append([]ast.Stmt{unblockStmt(tok)}, cl.Body...)
		}
		return []ast.Stmt{o, st}
	case *ast.IfStmt:
		if blocksShallow(s.Init, s.Cond) {
			tok, o, _ := p.newTok()
			s.Body.List = append([]ast.Stmt{unblockStmt(tok)}, s.Body.List...)
			switch e := s.Else.(type) {
			case nil:
				s.Else = &ast.BlockStmt{List: []ast.Stmt{unblockStmt(tok)}}
			case *ast.BlockStmt:
				e.List = append([]ast.Stmt{unblockStmt(tok)}, e.List...)
			default:
				s.Else = &ast.BlockStmt{List: []ast.Stmt{unblockStmt(tok), e}}
			}
			return []ast.Stmt{o, st}
		}
	case *ast.RangeStmt:
		if p.isChanExpr(s.X) {
			return []ast.Stmt{p.rewriteChanRange(s)}
		}
	case *ast.ReturnStmt:
		if blocksShallow(st) {
			fmt.Fprintln(os.Stderr, "instrument: blocking operation in a return statement left alone")
		}
	case *ast.ForStmt:
		if blocksShallow(s.Init, s.Cond, s.Post) {
			fmt.Fprintln(os.Stderr, "instrument: blocking operation in a for clause left alone")
		}
	case *ast.SwitchStmt:
		if blocksShallow(s.Init, s.Tag) {
			fmt.Fprintln(os.Stderr, "instrument: blocking operation in a switch header left alone")
		}
	}
	return []ast.Stmt{st}
}

func (p *pkgInfo) rewriteGo(g *ast.GoStmt) ast.Stmt {
	p.changed++
	call := g.Call
	if lit, ok := call.Fun.(*ast.FuncLit); ok && len(call.Args) == 0 {
		return &ast.ExprStmt{X: vy("Go", lit)}
	}
	var pre []ast.Stmt
	fv := ast.NewIdent("__vf")
	pre = append(pre, &ast.AssignStmt{Lhs: []ast.Expr{fv}, Tok: token.DEFINE, Rhs: []ast.Expr{call.Fun}})
	var args []ast.Expr
	for i, a := range call.Args {
		keep := false
		switch x := a.(type) {
		case *ast.BasicLit:
			keep = true
		case *ast.Ident:
			keep = x.Name == "nil" || x.Name == "true" || x.Name == "false"
		}
		if keep {
			args = append(args, a)
			continue
		}
		av := ast.NewIdent("__va" + strconv.Itoa(i))
		pre = append(pre, &ast.AssignStmt{Lhs: []ast.Expr{av}, Tok: token.DEFINE, Rhs: []ast.Expr{a}})
		args = append(args, ast.NewIdent(av.Name))
	}
	inner := &ast.CallExpr{Fun: ast.NewIdent(fv.Name), Args: args, Ellipsis: call.Ellipsis}
	if call.Ellipsis.IsValid() {
		inner.Ellipsis = token.Pos(1)
	}
	lit := &ast.FuncLit{Type: &ast.FuncType{Params: &ast.FieldList{}}, Body: &ast.BlockStmt{List: []ast.Stmt{&ast.ExprStmt{X: inner}}}}
	pre = append(pre, &ast.ExprStmt{X: vy("Go", lit)})
	return &ast.BlockStmt{List: pre}
}

func (p *pkgInfo) rewriteChanRange(s *ast.RangeStmt) ast.Stmt {
	_, o, c := p.newTok()
	ok := ast.NewIdent("__vok" + strconv.Itoa(p.tmp))
	recv := &ast.UnaryExpr{Op: token.ARROW, X: s.X}
	var body []ast.Stmt
	body = append(body, o)
	switch {
	case s.Key == nil:
		body = append(body, &ast.AssignStmt{Lhs: []ast.Expr{ast.NewIdent("_"), ok}, Tok: token.DEFINE, Rhs: []ast.Expr{recv}})
	case s.Tok == token.DEFINE:
		body = append(body, &ast.AssignStmt{Lhs: []ast.Expr{s.Key, ok}, Tok: token.DEFINE, Rhs: []ast.Expr{recv}})
	default:
		body = append(body, &ast.DeclStmt{Decl: &ast.GenDecl{Tok: token.VAR, Specs: []ast.Spec{&ast.ValueSpec{Names: []*ast.Ident{ast.NewIdent(ok.Name)}, Type: ast.NewIdent("bool")}}}})
		body = append(body, &ast.AssignStmt{Lhs: []ast.Expr{s.Key, ast.NewIdent(ok.Name)}, Tok: token.ASSIGN, Rhs: []ast.Expr{recv}})
	}
	body = append(body, c)
	body = append(body, &ast.IfStmt{Cond: &ast.UnaryExpr{Op: token.NOT, X: ast.NewIdent(ok.Name)}, Body: &ast.BlockStmt{List: []ast.Stmt{&ast.BranchStmt{Tok: token.BREAK}}}})
	if s.Key != nil && s.Tok == token.DEFINE {
		// a declared but unused loop variable is legal in a range clause, not in a short declaration
		body = append(body, &ast.AssignStmt{Lhs: []ast.Expr{ast.NewIdent("_")}, Tok: token.ASSIGN, Rhs: []ast.Expr{ast.NewIdent(s.Key.(*ast.Ident).Name)}})
	}
	body = append(body, s.Body.List...)
	return &ast.ForStmt{Body: &ast.BlockStmt{List: body}}
}
