module instrument

go 1.22
