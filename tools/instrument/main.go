// Command instrument rewrites the non-test, non-generated sources of the repository so that a
// call to verifyield.Yield(site) precedes every statement that touches process-wide state:
// package-level variables (other than error sentinels and precompiled regexps) and atomic /
// sync.Map style accessors. Nothing is written into the repository: instrumented copies go to
// -out and an overlay file maps the original paths onto them.
//
//	instrument -repo /repo -out /verif/build/instr -overlay-in build/overlay.json -overlay-out build/overlay_instr.json
package main

import (
	"bytes"
	"encoding/json"
	"flag"
	"fmt"
	"go/ast"
	"go/format"
	"go/parser"
	"go/token"
	"os"
	"path/filepath"
	"sort"
	"strconv"
	"strings"
)

const yieldPkg = "github.com/verily-src/fhirpath-go/internal/verifyield"

var atomicish = map[string]bool{"Load": true, "Store": true, "Swap": true, "CompareAndSwap": true, "LoadOrStore": true, "LoadAndDelete": true, "CompareAndDelete": true}

type pkgInfo struct {
	dir     string
	files   map[string]*ast.File
	globals map[string]bool
	topSpec map[*ast.ValueSpec]bool
	// asynchrony rewriting (see async.go)
	chanFields map[string]bool // struct fields of channel type declared in this package
	chans      map[string]bool // identifiers of channel type visible in the function being rewritten
	changed    int             // rewrites other than yield sites in the current file
	tmp        int
}

func main() {
	repo := flag.String("repo", "/repo", "repository root")
	out := flag.String("out", "", "directory for instrumented copies")
	ovIn := flag.String("overlay-in", "", "existing overlay file to extend")
	ovOut := flag.String("overlay-out", "", "overlay file to write")
	flag.Parse()
	if *out == "" || *ovOut == "" {
		fmt.Fprintln(os.Stderr, "usage: instrument -repo R -out DIR -overlay-in F -overlay-out F")
		os.Exit(2)
	}
	overlay := map[string]map[string]string{"Replace": {}}
	if *ovIn != "" {
		b, err := os.ReadFile(*ovIn)
		if err != nil {
			fatal(err)
		}
		if err := json.Unmarshal(b, &overlay); err != nil {
			fatal(err)
		}
	}
	_ = os.RemoveAll(*out)
	fset := token.NewFileSet()
	var dirs []string
	for _, top := range []string{"fhirpath", "internal"} {
		_ = filepath.Walk(filepath.Join(*repo, top), func(p string, info os.FileInfo, err error) error {
			if err != nil || !info.IsDir() {
				return nil
			}
			base := filepath.Base(p)
			if base == "grammar" || base == "verifsim" || base == "verifyield" || base == "testdata" {
				return filepath.SkipDir
			}
			dirs = append(dirs, p)
			return nil
		})
	}
	sort.Strings(dirs)
	site := 0
	nFiles, nYields, nAsync := 0, 0, 0
	var sites []string
	for _, dir := range dirs {
		ents, _ := os.ReadDir(dir)
		pi := &pkgInfo{dir: dir, files: map[string]*ast.File{}, globals: map[string]bool{}, topSpec: map[*ast.ValueSpec]bool{}, chanFields: map[string]bool{}, chans: map[string]bool{}}
		for _, e := range ents {
			n := e.Name()
			if e.IsDir() || !strings.HasSuffix(n, ".go") || strings.HasSuffix(n, "_test.go") {
				continue
			}
			path := filepath.Join(dir, n)
			src, err := os.ReadFile(path)
			if err != nil {
				fatal(err)
			}
			if bytes.Contains(src, []byte("//go:build !verif")) || bytes.Contains(src, []byte("//go:build verif")) || bytes.Contains(src, []byte("Code generated")) {
				continue
			}
			f, err := parser.ParseFile(fset, path, src, parser.ParseComments)
			if err != nil {
				fatal(err)
			}
			pi.files[path] = f
		}
		for _, f := range pi.files {
			for _, d := range f.Decls {
				gd, ok := d.(*ast.GenDecl)
				if !ok || gd.Tok != token.VAR {
					continue
				}
				for _, sp := range gd.Specs {
					vs := sp.(*ast.ValueSpec)
					pi.topSpec[vs] = true
					for i, name := range vs.Names {
						if name.Name == "_" || strings.HasPrefix(name.Name, "Err") || strings.HasPrefix(name.Name, "err") {
							continue
						}
						if i < len(vs.Values) && isImmutableInit(vs.Values[i]) {
							continue
						}
						pi.globals[name.Name] = true
					}
				}
			}
		}
		for _, f := range pi.files {
			pi.collectChanFields(f)
		}
		paths := make([]string, 0, len(pi.files))
		for p := range pi.files {
			paths = append(paths, p)
		}
		sort.Strings(paths)
		for _, path := range paths {
			f := pi.files[path]
			before := site
			pi.changed = 0
			for _, d := range f.Decls {
				fd, ok := d.(*ast.FuncDecl)
				if !ok || fd.Body == nil {
					continue
				}
				pi.instrumentFunc(fd.Body, &site, func(s int, pos token.Pos) {
					sites = append(sites, fmt.Sprintf("%d %s", s, fset.Position(pos)))
				})
			}
			if site == before && pi.changed == 0 {
				continue
			}
			nAsync += pi.changed
			addImport(f)
			var buf bytes.Buffer
			if err := format.Node(&buf, fset, f); err != nil {
				fatal(fmt.Errorf("%s: %w", path, err))
			}
			rel, _ := filepath.Rel(*repo, path)
			dst := filepath.Join(*out, rel)
			if err := os.MkdirAll(filepath.Dir(dst), 0o755); err != nil {
				fatal(err)
			}
			if err := os.WriteFile(dst, buf.Bytes(), 0o644); err != nil {
				fatal(err)
			}
			overlay["Replace"][path] = dst
			nFiles++
			nYields += site - before
		}
	}
	// the marker file that tells the simulator it runs against rewritten sources
	marker := filepath.Join(*out, "internal/verifyield/instrumented.go")
	_ = os.MkdirAll(filepath.Dir(marker), 0o755)
	if err := os.WriteFile(marker, []byte("package verifyield\n\nfunc init() { Instrumented = true }\n"), 0o644); err != nil {
		fatal(err)
	}
	overlay["Replace"][filepath.Join(*repo, "internal/verifyield/instrumented.go")] = marker
	b, _ := json.MarshalIndent(overlay, "", " ")
	if err := os.WriteFile(*ovOut, b, 0o644); err != nil {
		fatal(err)
	}
	_ = os.WriteFile(filepath.Join(*out, "sites.txt"), []byte(strings.Join(sites, "\n")+"\n"), 0o644)
	fmt.Printf("instrumented %d files, %d yield sites, %d goroutine/blocking-operation rewrites\n", nFiles, nYields, nAsync)
}

func fatal(err error) {
	fmt.Fprintln(os.Stderr, "instrument:", err)
	os.Exit(2)
}

// isImmutableInit: values that are never written after initialisation in practice and are
// safe for concurrent use: error sentinels and precompiled regular expressions.
func isImmutableInit(e ast.Expr) bool {
	c, ok := e.(*ast.CallExpr)
	if !ok {
		return false
	}
	s, ok := c.Fun.(*ast.SelectorExpr)
	if !ok {
		return false
	}
	x, ok := s.X.(*ast.Ident)
	if !ok {
		return false
	}
	switch x.Name + "." + s.Sel.Name {
	case "errors.New", "fmt.Errorf", "regexp.MustCompile":
		return true
	}
	return false
}

// usesWait: functions that use a condition variable (Wait together with Lock) or TryLock are
// left alone: a task woken inside Wait holds the lock again and cannot be parked.
func usesWait(body *ast.BlockStmt) bool {
	wait, lock, try := false, false, false
	ast.Inspect(body, func(n ast.Node) bool {
		if c, ok := n.(*ast.CallExpr); ok {
			if s, ok := c.Fun.(*ast.SelectorExpr); ok && len(c.Args) == 0 {
				switch s.Sel.Name {
				case "Wait":
					wait = true
				case "Lock", "RLock":
					lock = true
				case "TryLock", "TryRLock":
					try = true
				}
			}
		}
		return true
	})
	return try || (wait && lock)
}

func (p *pkgInfo) instrumentFunc(body *ast.BlockStmt, site *int, note func(int, token.Pos)) {
	if usesWait(body) {
		return // condition variables and TryLock: leave the function alone
	}
	saved := p.chans
	p.chans = p.chansOf(body, saved)
	p.wrapAfterFunc(body)
	p.instrumentBlock(&body.List, site, note)
	p.chans = saved
}

// lockCall classifies a statement that is exactly one call X.Lock()/X.RLock()/X.Unlock()/
// X.RUnlock()/X.Do(f) (plain or deferred).
func lockCall(st ast.Stmt) (kind string, deferred bool) {
	var call *ast.CallExpr
	switch s := st.(type) {
	case *ast.ExprStmt:
		call, _ = s.X.(*ast.CallExpr)
	case *ast.DeferStmt:
		call, deferred = s.Call, true
	}
	if call == nil {
		return "", false
	}
	sel, ok := call.Fun.(*ast.SelectorExpr)
	if !ok {
		return "", false
	}
	switch sel.Sel.Name {
	case "Lock", "RLock":
		if len(call.Args) == 0 {
			return "lock", deferred
		}
	case "Unlock", "RUnlock":
		if len(call.Args) == 0 {
			return "unlock", deferred
		}
	case "Do":
		if len(call.Args) == 1 {
			if _, isLit := call.Args[0].(*ast.FuncLit); isLit {
				return "once", deferred
			}
			if _, isId := call.Args[0].(*ast.Ident); isId {
				return "once", deferred
			}
		}
	}
	return "", false
}

func lockedStmt(delta int, deferred bool) ast.Stmt {
	arg := strconv.Itoa(delta)
	call := &ast.CallExpr{
		Fun:  &ast.SelectorExpr{X: ast.NewIdent("verifyield"), Sel: ast.NewIdent("Locked")},
		Args: []ast.Expr{&ast.BasicLit{Kind: token.INT, Value: arg}},
	}
	if delta < 0 {
		call.Args = []ast.Expr{&ast.UnaryExpr{Op: token.SUB, X: &ast.BasicLit{Kind: token.INT, Value: strconv.Itoa(-delta)}}}
	}
	if deferred {
		return &ast.DeferStmt{Call: call}
	}
	return &ast.ExprStmt{X: call}
}

func (p *pkgInfo) instrumentBlock(list *[]ast.Stmt, site *int, note func(int, token.Pos)) {
	var out []ast.Stmt
	yield := func(pos token.Pos) {
		*site++
		note(*site, pos)
		out = append(out, &ast.ExprStmt{X: &ast.CallExpr{
			Fun:  &ast.SelectorExpr{X: ast.NewIdent("verifyield"), Sel: ast.NewIdent("Yield")},
			Args: []ast.Expr{&ast.BasicLit{Kind: token.INT, Value: strconv.Itoa(*site)}},
		}})
	}
	for _, st := range *list {
		// Lock regions: the simulator keeps a per-task depth and never switches while it is
		// positive, so a parked task holds no lock; acquiring a lock is itself a yield point.
		switch kind, deferred := lockCall(st); {
		case kind == "lock" && !deferred:
			yield(st.Pos())
			out = append(out, st, lockedStmt(1, false))
			continue
		case kind == "unlock" && !deferred:
			out = append(out, st, lockedStmt(-1, false))
			continue
		case kind == "unlock" && deferred:
			// defers run last-in first-out: this one runs after the deferred Unlock
			out = append(out, lockedStmt(-1, true), st)
			continue
		case kind == "once" && !deferred:
			yield(st.Pos())
			out = append(out, lockedStmt(1, false))
			p.descend(st, site, note)
			out = append(out, st, lockedStmt(-1, false))
			continue
		}
		if p.touchesGlobals(st) {
			yield(st.Pos())
		}
		p.descend(st, site, note)
		out = append(out, p.rewriteAsync(st)...)
	}
	*list = out
}

// descend instruments nested blocks and function literals of st.
func (p *pkgInfo) descend(st ast.Stmt, site *int, note func(int, token.Pos)) {
	switch s := st.(type) {
	case *ast.BlockStmt:
		p.instrumentBlock(&s.List, site, note)
	case *ast.IfStmt:
		p.instrumentBlock(&s.Body.List, site, note)
		if s.Else != nil {
			p.descend(s.Else, site, note)
		}
	case *ast.ForStmt:
		p.instrumentBlock(&s.Body.List, site, note)
	case *ast.RangeStmt:
		p.instrumentBlock(&s.Body.List, site, note)
	case *ast.SwitchStmt:
		for _, c := range s.Body.List {
			p.instrumentBlock(&c.(*ast.CaseClause).Body, site, note)
		}
	case *ast.TypeSwitchStmt:
		for _, c := range s.Body.List {
			p.instrumentBlock(&c.(*ast.CaseClause).Body, site, note)
		}
	case *ast.SelectStmt:
		for _, c := range s.Body.List {
			p.instrumentBlock(&c.(*ast.CommClause).Body, site, note)
		}
	case *ast.LabeledStmt:
		p.descend(s.Stmt, site, note)
	}
	// function literals anywhere in the shallow part of the statement
	for _, e := range shallowExprs(st) {
		ast.Inspect(e, func(n ast.Node) bool {
			if fl, ok := n.(*ast.FuncLit); ok {
				p.instrumentFunc(fl.Body, site, note)
				return false
			}
			return true
		})
	}
}

// shallowExprs returns the expressions evaluated by the statement itself (not by nested blocks).
func shallowExprs(st ast.Stmt) []ast.Node {
	var out []ast.Node
	add := func(n ast.Node) {
		if n != nil && !isNilNode(n) {
			out = append(out, n)
		}
	}
	switch s := st.(type) {
	case *ast.ExprStmt:
		add(s.X)
	case *ast.AssignStmt, *ast.ReturnStmt, *ast.IncDecStmt, *ast.SendStmt, *ast.GoStmt, *ast.DeferStmt, *ast.DeclStmt:
		add(s)
	case *ast.IfStmt:
		add(s.Init)
		add(s.Cond)
	case *ast.ForStmt:
		add(s.Init)
		add(s.Cond)
		add(s.Post)
	case *ast.RangeStmt:
		add(s.X)
	case *ast.SwitchStmt:
		add(s.Init)
		add(s.Tag)
	case *ast.TypeSwitchStmt:
		add(s.Init)
		add(s.Assign)
	}
	return out
}

func isNilNode(n ast.Node) bool {
	switch v := n.(type) {
	case ast.Stmt:
		return v == nil
	case ast.Expr:
		return v == nil
	}
	return false
}

func (p *pkgInfo) touchesGlobals(st ast.Stmt) bool {
	hit := false
	for _, e := range shallowExprs(st) {
		ast.Inspect(e, func(n ast.Node) bool {
			if hit {
				return false
			}
			switch x := n.(type) {
			case *ast.FuncLit:
				return false // its body is instrumented on its own
			case *ast.SelectorExpr:
				// pkg.Name / value.Field: only the operand can be a package-level variable of this package
				if id, ok := x.X.(*ast.Ident); ok && p.isGlobal(id) {
					hit = true
				}
				if _, ok := x.X.(*ast.Ident); ok {
					return false
				}
			case *ast.CallExpr:
				if s, ok := x.Fun.(*ast.SelectorExpr); ok {
					if atomicish[s.Sel.Name] {
						hit = true
					}
					if id, ok := s.X.(*ast.Ident); ok && id.Name == "atomic" {
						hit = true
					}
				}
			case *ast.KeyValueExpr:
				// struct literal keys are field names, not variables
				ast.Inspect(x.Value, func(m ast.Node) bool {
					if id, ok := m.(*ast.Ident); ok && p.isGlobal(id) {
						hit = true
					}
					return !hit
				})
				return false
			case *ast.Ident:
				if p.isGlobal(x) {
					hit = true
				}
			}
			return !hit
		})
	}
	return hit
}

func (p *pkgInfo) isGlobal(id *ast.Ident) bool {
	if !p.globals[id.Name] {
		return false
	}
	if id.Obj == nil {
		return true // declared in another file of the package
	}
	if vs, ok := id.Obj.Decl.(*ast.ValueSpec); ok && p.topSpec[vs] {
		return true
	}
	return false // a local of the same name
}

func addImport(f *ast.File) {
	for _, im := range f.Imports {
		if im.Path.Value == strconv.Quote(yieldPkg) {
			return
		}
	}
	spec := &ast.ImportSpec{Name: ast.NewIdent("verifyield"), Path: &ast.BasicLit{Kind: token.STRING, Value: strconv.Quote(yieldPkg)}}
	for _, d := range f.Decls {
		if gd, ok := d.(*ast.GenDecl); ok && gd.Tok == token.IMPORT {
			gd.Specs = append(gd.Specs, spec)
			if !gd.Lparen.IsValid() {
				gd.Lparen = gd.Pos()
				gd.Rparen = gd.End()
			}
			f.Imports = append(f.Imports, spec)
			return
		}
	}
	gd := &ast.GenDecl{Tok: token.IMPORT, Specs: []ast.Spec{spec}}
	f.Decls = append([]ast.Decl{gd}, f.Decls...)
	f.Imports = append(f.Imports, spec)
}
