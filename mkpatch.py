#!/usr/bin/env python3
"""mkpatch.py <out.diff> <file> <<< JSON list of [old,new] pairs  -- builds a patch against /repo HEAD without touching /repo"""
import sys,json,subprocess,os,tempfile,shutil
out,rel=sys.argv[1],sys.argv[2]
pairs=json.loads(sys.stdin.read(), strict=False)
src=subprocess.check_output(['git','-C','/repo','show','HEAD:'+rel],text=True)
new=src
for o,n in pairs:
    if o not in new: sys.exit('old text not found: '+o[:60])
    new=new.replace(o,n,1)
d=tempfile.mkdtemp()
a=os.path.join(d,'a',rel); b=os.path.join(d,'b',rel)
os.makedirs(os.path.dirname(a)); os.makedirs(os.path.dirname(b))
open(a,'w').write(src); open(b,'w').write(new)
p=subprocess.run(['diff','-u','a/'+rel,'b/'+rel],cwd=d,capture_output=True,text=True)
open(out,'a').write(p.stdout)
shutil.rmtree(d)
