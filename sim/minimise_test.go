package verifsim

// Delta-debugging minimiser over case files. A candidate is kept only if the same
// violation class persists. Plain builds evaluate candidates in this process; race
// builds evaluate each candidate in a fresh process, because ThreadSanitizer reports
// each distinct race only once per process.

import (
	"encoding/json"
	"fmt"
	"os"
	"os/exec"
	"path/filepath"
	"testing"
	"time"

	"google.golang.org/protobuf/proto"
	"google.golang.org/protobuf/reflect/protoreflect"
)

type minimiser struct {
	t        *testing.T
	class    string
	deadline time.Time
	tries    int
	kept     int
	tmp      string
	fresh    bool // evaluate every candidate in a fresh process (violations that depend on process history)
}

func cloneCase(c *Case) *Case {
	b, err := json.Marshal(c)
	if err != nil {
		panic(err)
	}
	var o Case
	if err := json.Unmarshal(b, &o); err != nil {
		panic(err)
	}
	return &o
}

func (m *minimiser) fails(c *Case) bool {
	m.tries++
	if raceEnabled || m.fresh {
		f := filepath.Join(m.tmp, fmt.Sprintf("cand-%d.json", m.tries))
		out := f + ".out"
		if saveJSON(f, c) != nil {
			return false
		}
		defer os.Remove(f)
		defer os.Remove(out)
		rl := filepath.Join(m.tmp, fmt.Sprintf("race-%d", m.tries))
		args := []string{"-test.run=^TestSim$", "-replay=" + f, "-out=" + out}
		if raceEnabled {
			args = append(args, "-racelog="+rl)
		}
		cmd := exec.Command(os.Args[0], args...)
		cmd.Env = append(os.Environ(), "GORACE=log_path="+rl+" halt_on_error=0")
		_ = cmd.Run()
		if ms, _ := filepath.Glob(rl + ".*"); len(ms) > 0 {
			defer func() {
				for _, x := range ms {
					os.Remove(x)
				}
			}()
		}
		b, err := os.ReadFile(out)
		if err != nil {
			return false
		}
		var rep WorkerReport
		if json.Unmarshal(b, &rep) != nil || len(rep.Infra) > 0 {
			return false
		}
		for _, v := range rep.Violations {
			if v.Violation.Class == m.class {
				return true
			}
		}
		return false
	}
	v := execGuard(m.t, c)
	if v.Infra != "" {
		return false
	}
	for _, vi := range v.Violations {
		if vi.Class == m.class {
			return true
		}
	}
	return false
}

func (m *minimiser) expired() bool { return time.Now().After(m.deadline) }

// try applies f to a copy of *cur and keeps it if the violation persists.
func (m *minimiser) try(cur **Case, f func(c *Case) bool) bool {
	if m.expired() {
		return false
	}
	cand := cloneCase(*cur)
	if !f(cand) {
		return false
	}
	if m.fails(cand) {
		*cur = cand
		m.kept++
		return true
	}
	return false
}

// usedPrograms etc. remap indices after removing unreferenced entries.
func compactPrograms(c *Case) bool {
	if len(c.Programs) == 0 {
		return false
	}
	used := make([]bool, len(c.Programs))
	for _, cl := range c.Clients {
		for _, op := range cl {
			if op.Prog >= 0 && op.Prog < len(used) {
				used[op.Prog] = true
			}
		}
	}
	remap := make([]int, len(c.Programs))
	var keep []ProgSpec
	changed := false
	for i, p := range c.Programs {
		if used[i] {
			remap[i] = len(keep)
			keep = append(keep, p)
		} else {
			changed = true
		}
	}
	if !changed {
		return false
	}
	c.Programs = keep
	for ci := range c.Clients {
		for oi := range c.Clients[ci] {
			c.Clients[ci][oi].Prog = remap[c.Clients[ci][oi].Prog]
		}
	}
	return true
}

// pruneResource clears the n-th populated field (in a deterministic walk down to depth 3)
// of resource ri; returns false when there is no such field.
func pruneResource(c *Case, ri, n int) bool {
	m, err := decodeMessage(&c.Resources[ri])
	if err != nil {
		return false
	}
	count := 0
	done := false
	var walk func(x protoreflect.Message, depth int)
	walk = func(x protoreflect.Message, depth int) {
		if done || x.Descriptor().FullName() == "google.protobuf.Any" {
			return
		}
		fs := x.Descriptor().Fields()
		for i := 0; i < fs.Len() && !done; i++ {
			fd := fs.Get(i)
			if !x.Has(fd) {
				continue
			}
			if count == n {
				if fd.IsList() && x.Get(fd).List().Len() > 1 {
					x.Mutable(fd).List().Truncate(x.Get(fd).List().Len() - 1)
				} else {
					x.Clear(fd)
				}
				done = true
				return
			}
			count++
			if depth < 3 && fd.Kind() == protoreflect.MessageKind {
				if fd.IsList() {
					l := x.Get(fd).List()
					for j := 0; j < l.Len() && !done; j++ {
						walk(l.Get(j).Message(), depth+1)
					}
				} else {
					walk(x.Get(fd).Message(), depth+1)
				}
			}
		}
	}
	walk(m.ProtoReflect(), 0)
	if !done {
		return false
	}
	text := c.Resources[ri].Text
	c.Resources[ri] = encodeMessage(m.(proto.Message))
	c.Resources[ri].Text = text
	return true
}

func (m *minimiser) run(c *Case) *Case {
	cur := c
	for round := 0; round < 6 && !m.expired(); round++ {
		before := m.kept
		// --- knobs, clock, zones, histories ---
		m.try(&cur, func(c *Case) bool { ch := c.Knobs.GCEvery != 0; c.Knobs.GCEvery = 0; return ch })
		m.try(&cur, func(c *Case) bool {
			ch := c.Knobs.MidCompile != 0 || len(c.MidProgs) > 0
			c.Knobs.MidCompile = 0
			c.MidProgs = nil
			return ch
		})
		m.try(&cur, func(c *Case) bool { ch := len(c.History) > 0; c.History = nil; return ch })
		for i := len(cur.History) - 1; i >= 0; i-- {
			i := i
			m.try(&cur, func(c *Case) bool { c.History = append(c.History[:i], c.History[i+1:]...); return true })
		}
		m.try(&cur, func(c *Case) bool { ch := len(c.MixZone) > 0; c.MixZone = nil; return ch })
		for i := len(cur.Zones) - 1; i >= 0 && len(cur.Zones) > 1; i-- {
			i := i
			m.try(&cur, func(c *Case) bool {
				if i >= len(c.Zones) || len(c.Zones) <= 1 {
					return false
				}
				c.Zones = append(c.Zones[:i], c.Zones[i+1:]...)
				return true
			})
		}
		m.try(&cur, func(c *Case) bool { ch := c.ClockMs != 0; c.ClockMs = 0; return ch })
		m.try(&cur, func(c *Case) bool { ch := c.Knobs.GapDays != 0; c.Knobs.GapDays = 0; return ch })
		m.try(&cur, func(c *Case) bool { ch := !c.Knobs.NoSched; c.Knobs.NoSched = true; return ch })

		// --- clients and operations (generic modes) ---
		for ci := len(cur.Clients) - 1; ci >= 0; ci-- {
			ci := ci
			m.try(&cur, func(c *Case) bool {
				if ci >= len(c.Clients) || len(c.Clients) <= 1 {
					return false
				}
				c.Clients = append(c.Clients[:ci], c.Clients[ci+1:]...)
				return true
			})
		}
		for ci := 0; ci < len(cur.Clients); ci++ {
			for oi := len(cur.Clients[ci]) - 1; oi >= 0; oi-- {
				ci, oi := ci, oi
				m.try(&cur, func(c *Case) bool {
					if ci >= len(c.Clients) || oi >= len(c.Clients[ci]) {
						return false
					}
					c.Clients[ci] = append(c.Clients[ci][:oi], c.Clients[ci][oi+1:]...)
					return true
				})
			}
		}
		for ci := 0; ci < len(cur.Clients); ci++ {
			for oi := 0; oi < len(cur.Clients[ci]); oi++ {
				ci, oi := ci, oi
				m.try(&cur, func(c *Case) bool { ch := c.Clients[ci][oi].FailN != 0; c.Clients[ci][oi].FailN = 0; return ch })
				for k := len(cur.Clients[ci][oi].Opts) - 1; k >= 0; k-- {
					k := k
					m.try(&cur, func(c *Case) bool {
						o := &c.Clients[ci][oi]
						if k >= len(o.Opts) {
							return false
						}
						o.Opts = append(o.Opts[:k], o.Opts[k+1:]...)
						return true
					})
				}
				m.try(&cur, func(c *Case) bool {
					o := &c.Clients[ci][oi]
					if len(o.Res) <= 1 {
						return false
					}
					o.Res = o.Res[:1]
					return true
				})
			}
		}
		m.try(&cur, compactPrograms)
		for pi := 0; pi < len(cur.Programs); pi++ {
			for k := len(cur.Programs[pi].Opts) - 1; k >= 0; k-- {
				pi, k := pi, k
				m.try(&cur, func(c *Case) bool {
					p := &c.Programs[pi]
					if k >= len(p.Opts) {
						return false
					}
					p.Opts = append(p.Opts[:k], p.Opts[k+1:]...)
					return true
				})
			}
		}

		// --- C18 ---
		if cur.C18 != nil {
			for ci := len(cur.C18.Clients) - 1; ci >= 0; ci-- {
				ci := ci
				m.try(&cur, func(c *Case) bool {
					if ci >= len(c.C18.Clients) || len(c.C18.Clients) <= 1 {
						return false
					}
					c.C18.Clients = append(c.C18.Clients[:ci], c.C18.Clients[ci+1:]...)
					return true
				})
			}
			for ci := 0; ci < len(cur.C18.Clients); ci++ {
				for oi := len(cur.C18.Clients[ci].Ops) - 1; oi >= 0; oi-- {
					ci, oi := ci, oi
					m.try(&cur, func(c *Case) bool {
						cl := &c.C18.Clients[ci]
						if oi >= len(cl.Ops) || len(cl.Ops) <= 1 {
							return false
						}
						cl.Ops = append(cl.Ops[:oi], cl.Ops[oi+1:]...)
						return true
					})
				}
				for oi := 0; oi < len(cur.C18.Clients[ci].Ops); oi++ {
					ci, oi := ci, oi
					m.try(&cur, func(c *Case) bool { o := &c.C18.Clients[ci].Ops[oi]; ch := o.FailN != 0; o.FailN = 0; return ch })
					m.try(&cur, func(c *Case) bool { o := &c.C18.Clients[ci].Ops[oi]; ch := len(o.EOpts) > 0; o.EOpts = nil; return ch })
					m.try(&cur, func(c *Case) bool { o := &c.C18.Clients[ci].Ops[oi]; ch := len(o.COpts) > 0; o.COpts = nil; return ch })
					m.try(&cur, func(c *Case) bool { o := &c.C18.Clients[ci].Ops[oi]; ch := o.API != "expr"; o.API = "expr"; return ch })
				}
			}
		}
		// --- C17 ---
		if cur.C17 != nil {
			minimiseC17(m, &cur)
		}

		// --- schedule tape: fewer switches, shorter ---
		m.try(&cur, func(c *Case) bool {
			ch := false
			for i := range c.Tape {
				if c.Tape[i] != 0 {
					ch = true
				}
				c.Tape[i] = 0
			}
			return ch
		})
		for n := len(cur.Tape) / 2; n >= 8 && !m.expired(); n /= 2 {
			n := n
			if !m.try(&cur, func(c *Case) bool {
				if len(c.Tape) <= n {
					return false
				}
				c.Tape = c.Tape[:n]
				return true
			}) {
				break
			}
		}
		// zero blocks of the tape
		for blk := len(cur.Tape) / 4; blk >= 16 && !m.expired(); blk /= 2 {
			for off := 0; off < len(cur.Tape); off += blk {
				off, blk := off, blk
				m.try(&cur, func(c *Case) bool {
					ch := false
					for i := off; i < off+blk && i < len(c.Tape); i++ {
						if c.Tape[i]>>8 != 0 {
							ch = true
						}
						c.Tape[i] &= 0xff
					}
					return ch
				})
			}
		}

		// --- resources: prune subtrees ---
		for ri := 0; ri < len(cur.Resources) && !m.expired(); ri++ {
			n := 0
			for fails := 0; fails < 40 && !m.expired(); {
				ri, n0 := ri, n
				ok := false
				applied := m.try(&cur, func(c *Case) bool { ok = pruneResource(c, ri, n0); return ok })
				if !ok {
					break
				}
				if !applied {
					n++
					fails++
				}
			}
		}
		if m.kept == before {
			break
		}
	}
	return cur
}

func runMinimise(t *testing.T) {
	c, err := loadCase(*fMinimise)
	if err != nil {
		t.Fatalf("minimise: %v", err)
	}
	budget := *fBudget
	if budget <= 0 {
		budget = 60 * time.Second
	}
	tmp, err := os.MkdirTemp(filepath.Dir(*fOut), "min-")
	if err != nil {
		t.Fatalf("minimise: %v", err)
	}
	defer os.RemoveAll(tmp)
	m := &minimiser{t: t, class: *fClass, deadline: time.Now().Add(budget), tmp: tmp}
	if !m.fails(c) {
		fmt.Printf("MINIMISE: the case does not show class %q in this process; kept as is\n", m.class)
		if err := saveJSON(*fOut, c); err != nil {
			t.Fatal(err)
		}
		return
	}
	size0 := caseSize(c)
	best := m.run(c)
	if m.kept == 0 && !raceEnabled && !m.expired() {
		// nothing could be removed in this process: the violation may depend on what the process
		// did before (state surviving between Compile calls); try again with a fresh process per candidate
		m.fresh = true
		if m.fails(c) {
			best = m.run(c)
		}
	}
	if err := saveJSON(*fOut, best); err != nil {
		t.Fatal(err)
	}
	fmt.Printf("MINIMISE: %d candidates tried, %d reductions kept, size %d -> %d bytes\n", m.tries, m.kept, size0, caseSize(best))
}

func caseSize(c *Case) int {
	b, _ := json.Marshal(c)
	return len(b)
}
