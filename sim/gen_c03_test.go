package verifsim

import (
	"fmt"
	"strings"

	"google.golang.org/protobuf/reflect/protoreflect"
)

var c03Chain = []string{".select(id)", ".select(value)", ".select(extension)", ".select(family)", ".select(given)", ".select(url)", ".where(id.exists())", ".select(system)", ".select(coding)", ".select(text)",
	".tail()", ".skip(1)", ".skip(0)", ".take(0)", ".take(1)", ".take(5)", ".first()", ".last()", ".where(true)", ".where(false)",
	".select($this)", ".distinct()", ".exclude(%W)", ".intersect(%W)", ".combine(%W)", ".union(%W)", ".ofType(string)", ".ofType(HumanName)",
	".where($this is String)", ".where(($this is String).not())", ".where($this is Integer)", ".where($this is HumanName)", ".where($this is Boolean)",
	".select($this).where($this is Integer)", ".exclude(%W.first())", ".children()", ".descendants()", ".repeat($this)", ".single()", ".idf()", ".trace('x')", "[0]", "[1]", ".y()", ".skip(2)", ".tail().tail()"}

var c03Tail = []string{" & 'x'", " & %W", "", "", ".count()", " = %W", ".supersetOf(%W)", ".subsetOf(%W)", ".toString()", ".exists()", ".empty()", ".combine(%W).count()", ".isDistinct()", ".allTrue()", ".select($this & 'z')", ".where($this = %W)",
	// the variable, or a window of it, as the operand of an operator (operands are converted to System values)
	" + 1", " > 1", " < @2001-01-01", " * 2", " >= 'm'", ".take(1) + 1", ".take(1) < @2001-01-01T00:00:00Z", ".tail() > 1", ".skip(1) <= 5", ".take(1) - %W.take(1)", " = 1", " != 'x'", " ~ 'x'", ".tail() div 2", ".take(1) > %W"}

// varProgram builds a program that slices, filters and concatenates environment collections
// (the shapes through which an evaluation could write into the caller's backing arrays).
func (g *genCtx) varProgram() (ProgSpec, []string) {
	v := pick(g.r, g.vname)
	w := pick(g.r, g.vname)
	used := map[string]bool{v: true}
	fill := func(s string) string {
		if strings.Contains(s, "%W") {
			used[w] = true
			return strings.ReplaceAll(s, "%W", "%"+w)
		}
		return s
	}
	src := "%" + v
	if vi := indexOf(g.vname, v); vi >= 0 && vi < len(g.c.Vars) && len(g.c.Vars[vi].Items) >= 15 && g.r.p(0.75) {
		// a big collection: windows whose size relates to its size (most of it dropped, most of it kept, half)
		l := len(g.c.Vars[vi].Items)
		src += fmt.Sprintf(pick(g.r, []string{".skip(%d)", ".skip(%d).tail()", ".take(%d)", ".take(%d).skip(%[2]d)", ".tail().skip(%d)", ".skip(%d).take(3)", ".take(%d).tail()", ".skip(%[2]d).skip(%[1]d)"}),
			pick(g.r, []int{l - 1, l - 2, l * 3 / 4, l/2 + 1, l / 2, l / 4, 1}), pick(g.r, []int{l / 3, l / 2, 2}))
	}
	for i, n := 0, g.r.n(4); i < n; i++ {
		src += fill(pick(g.r, c03Chain))
	}
	t := fill(pick(g.r, c03Tail))
	switch x := g.r.n(10); {
	case x < 2:
		src = "'x' & " + src
	case x < 5:
		// the variable (or a slice of it) as the projection / criterion / branch inside an iteration
		// over several items: functions that collect per-item results must not adopt such a slice
		over := pick(g.r, []string{"children()", "descendants().take(3)", "children().take(2)", "descendants().skip(1).take(4)", "(1 | 2)"[:0] + "children().children()"})
		form := pick(g.r, []string{"%s.select(%s)", "%s.select(%s).count()", "%s.select(iif(true, %s))", "%s.where(%s.exists())", "%s.all(%s.empty().not())", "%s.select(%s & 'q')", "%s.exists(%s.count() > 0)", "%s.select(%s.take(1))", "%s.select(%s.first())", "%s.select(%s.tail())"})
		src = fmt.Sprintf(form, over, src)
	default:
		src += t
	}
	var opts []COpt
	for _, cb := range g.cbs {
		if strings.Contains(src, "."+cb.Name+"()") {
			opts = append(opts, cb)
		}
	}
	var u []string
	for _, n := range g.vname {
		if used[n] {
			u = append(u, n)
		}
	}
	return ProgSpec{Src: src, Opts: opts}, u
}

// rareProgram applies one of the functions that ordinary programs seldom reach to elements of
// the input selected by type - whatever the function makes of them (many of these calls are
// errors in the unchanged library; what matters here is that the input is as it was).
var c03RareGroups = []struct {
	fns   []string
	types []string
}{
	{[]string{"abs()", "ceiling()", "floor()", "round()", "round(1)", "truncate()", "sqrt()", "ln()", "exp()", "log(10)", "power(2)", "toInteger()", "toDecimal()", "toQuantity()", "toQuantity('mg')", "toString()", "convertsToInteger()", "convertsToQuantity()", "not()"},
		[]string{"Quantity", "Quantity", "decimal", "integer", "positiveInt", "unsignedInt", "Age", "Money", "Duration"}},
	{[]string{"toChars()", "upper()", "lower()", "length()", "indexOf('a')", "substring(1)", "startsWith('a')", "endsWith('a')", "contains('a')", "replace('a', 'b')", "matches('a')", "replaceMatches('a', 'b')", "toInteger()", "toDecimal()", "toBoolean()", "toDate()", "toDateTime()", "toTime()", "toQuantity()", "convertsToDecimal()", "convertsToBoolean()", "convertsToDate()", "convertsToTime()", "join(',')"},
		[]string{"string", "string", "code", "uri", "id", "markdown", "canonical"}},
	{[]string{"toString()", "toDate()", "toDateTime()", "toTime()", "convertsToDate()", "convertToDateTime()", "convertsToString()", "toChars()", "not()"},
		[]string{"dateTime", "date", "instant", "time"}},
	{[]string{"allTrue()", "anyTrue()", "allFalse()", "anyFalse()", "not()", "toInteger()", "toString()", "toDecimal()", "convertsToInteger()"},
		[]string{"boolean"}},
	{[]string{"isDistinct()", "distinct()", "single()", "trace('t')", "children()", "descendants()", "extension('http://example.org/ext/a')", "toString()", "children().children()", "abs()", "toChars()", "allTrue()"},
		[]string{"Period", "HumanName", "Coding", "CodeableConcept", "Reference", "Identifier", "Extension", "Quantity", "string", "boolean", "dateTime", "decimal"}},
}

func (g *genCtx) rareProgram(ri int) ProgSpec {
	root := string(g.res[ri].ProtoReflect().Descriptor().Name())
	sel := pick(g.r, []string{"", "", ".first()", ".last()", ".take(1)", ".skip(1).take(1)", "[0]"})
	grp := pick(g.r, c03RareGroups)
	f, tn := pick(g.r, grp.fns), pick(g.r, grp.types)
	// prefer a type the resource actually has elements of
	present := map[string]bool{}
	walkMessages(g.res[ri].ProtoReflect(), func(x protoreflect.Message) {
		if n, ok := fhirTypeName(x.Descriptor()); ok {
			present[n] = true
		}
	})
	var have []string
	for _, t := range grp.types {
		if present[t] {
			have = append(have, t)
		}
	}
	if len(have) > 0 && g.r.p(0.85) {
		tn = pick(g.r, have)
	}
	// (ofType(T) does not compile in this library - its table entry admits no argument - so the type
	// filter is spelled with `is`)
	src := fmt.Sprintf("%s.descendants().where($this is %s)%s", root, tn, sel)
	if g.r.n(4) == 0 {
		src += ".select(" + f + ")"
	} else {
		src += "." + f
	}
	var opts []COpt
	if strings.Contains(f, "join(") {
		opts = append(opts, COpt{Kind: "exp"})
	}
	return ProgSpec{Src: src, Opts: opts}
}

func genC03(seed uint64, run int, tier string) *Case {
	g := &genCtx{r: newRng(seed, uint64(run)*64+streamC03), tier: tier, c: &Case{Mode: "C03", Tier: tier, Seed: seed, Run: run, Shape: "alias-abort"}, vkind: map[string]int{}}
	c := g.c
	c.Knobs.SwitchThr = pick(g.r, []int{13, 77, 256})
	c.Knobs.NoSched = g.r.p(0.3)
	g.genResources(1 + g.r.n(2))
	g.genVars(2+g.r.n(3), 1.0)
	g.stdCallbacks()
	g.cbs = append(g.cbs, COpt{Kind: "fn", Name: "f2", Fn: "failkeep:2"}, COpt{Kind: "fn", Name: "e0", Fn: "empty"})
	nProg := 2 + g.r.n(4)
	depth := 2 + g.r.n(2)
	if g.thorough() {
		nProg = 3 + g.r.n(6)
	}
	type pinfo struct {
		ri   int
		used []string
	}
	var infos []pinfo
	for i := 0; i < nProg; i++ {
		ri := g.r.n(len(g.res))
		if g.r.p(0.45) {
			ps, used := g.varProgram()
			c.Programs = append(c.Programs, ps)
			infos = append(infos, pinfo{ri, used})
			continue
		}
		if g.r.p(0.3) {
			c.Programs = append(c.Programs, g.rareProgram(ri))
			infos = append(infos, pinfo{ri, nil})
			continue
		}
		ps, used := g.genProgram(ri, pick(g.r, []float64{0.05, 0.25}), depth)
		c.Programs = append(c.Programs, ps)
		infos = append(infos, pinfo{ri, used})
	}
	nClients := 1 + g.r.n(3)
	maxOps := 4
	if g.thorough() {
		maxOps = 8
	}
	for ci := 0; ci < nClients; ci++ {
		var ops []Op
		for oi, n := 0, 1+g.r.n(maxOps); oi < n; oi++ {
			pi := g.r.n(len(c.Programs))
			op := Op{Kind: pick(g.r, []string{"eval", "eval", "eval", "eval", "eval", "eval", "bool", "string", "int"}), Prog: pi, Res: []int{infos[pi].ri}}
			if g.r.p(0.12) {
				op.Res = append(op.Res, g.r.n(len(g.res))) // the same resource may appear twice in the input
			}
			op.Opts = g.evalOptsFor(infos[pi].used)
			switch x := g.r.n(10); {
			case x < 3:
				op.FailN = -1 // enumerate every abort point of this evaluation
			case x < 5:
				op.FailN = 1 + g.r.n(12)
			}
			ops = append(ops, op)
		}
		c.Clients = append(c.Clients, ops)
	}
	c.ClockMs = int64(g.r.n(10000)) * 86400_000
	g.genTape(900)
	_ = fmt.Sprint
	return c
}

func indexOf(l []string, x string) int {
	for i, s := range l {
		if s == x {
			return i
		}
	}
	return -1
}
