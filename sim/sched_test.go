package verifsim

// Cooperative, tape-driven scheduler. Exactly one task (the root or one client
// goroutine) runs at any instant; control moves only at yield points owned by the
// simulator. The three hand-off functions at the bottom of this file are the only
// places where ThreadSanitizer's view of synchronisation is suspended (see
// DESIGN.md 2.3): they contain nothing but the channel operations.

import (
	"fmt"
	"runtime"
	"sync"
	"sync/atomic"
	"testing/synctest"
	"time"
)

// Yield point kinds (also used as schedule-digest salt and reach counters).
const (
	ypOpBoundary = iota
	ypNode
	ypCallback
	ypGlobal // a statement touching process-wide state (instrumented build only)
	ypKinds
)

// Task states as seen by the task itself (atomic: a task that returns from an operation it was
// blocked in runs for a few instructions beside whoever the root has scheduled meanwhile).
const (
	stRun     int32 = iota // runnable: running, or parked at a yield point
	stExt                  // in (or about to enter) an operation that blocks outside the scheduler
	stPending              // back from that operation and parked until it is picked again
)

// extBit marks a hand-back that is the announcement of a blocking operation (the task does
// not park: it goes on into the operation).
const extBit = 1 << 24

type task struct {
	id   int
	wake chan struct{}
	done bool
	// set by the owner before it hands control back; read by the root (norace)
	inNode  int // id of the node the task is parked in (-1: not inside a node)
	opsDone int
	// goroutines the library starts itself (instrumented build: verifyield.Go) are tasks too
	goid   int64
	state  atomic.Int32
	helper bool
	ext    bool // the root's view: announced a blocking operation and has not been seen back
	body   func(t *task)
}

type sched struct {
	tape       []uint16
	pos        int
	thr        int // a yield point switches iff hi byte of the tape entry >= 256-thr
	tasks      []*task
	cur        *task // nil while the root runs
	rootCh     chan int
	wg         sync.WaitGroup
	steps      int // yield points reached
	switches   int // yield points that actually handed control to the root
	maxSteps   int
	overrun    bool
	sdig       uint64 // schedule digest
	ypCount    [ypKinds]int
	ypSwitched [ypKinds]int
	// reach probes
	overlapNode int // switches taken while some other task is parked inside the same node
	stalls      int // a task was parked mid-operation while others completed >=2 whole operations
	active      bool
	// asynchrony inside the library (instrumented build)
	async      bool // library goroutines and blocking operations are scheduled (needs a bubble)
	canonical  bool // reference schedule: never switch at a yield point, always pick the lowest runnable id
	idleCh     chan struct{}
	extN       int // tasks the root believes blocked outside its control
	liveG      atomic.Int32 // task goroutines alive (for the foreign-goroutine test)
	rootGoid   int64
	helpers    int // library goroutines taken over
	extBlocks  int // blocking operations announced
	idleJumps  int // times every task was blocked and the clock had to run on
	abandoned  int // library goroutines still alive when the run ended
	hung       bool
	afterDone  int
	helperPanic string
	taskEnded  func(t *task) // a library goroutine has ended (engine: merge its operation context)
	lastAnnounced *task // canonical schedule: who announced a blocking operation last
	newTaskOp  func(parent, child *task) // lets the engine give a library goroutine its parent's operation context
}

func newSched(tape []uint16, thr int, maxSteps int) *sched {
	return &sched{tape: tape, thr: thr, maxSteps: maxSteps, rootCh: make(chan int), sdig: 1469598103934665603, idleCh: make(chan struct{}, 1)}
}

// curGoid is the id of the calling goroutine (slow: only used where goroutines the simulator
// did not start may be around, and once per task).
func curGoid() int64 {
	var buf [48]byte
	n := runtime.Stack(buf[:], false)
	var id int64
	for _, c := range buf[len("goroutine "):n] {
		if c < '0' || c > '9' {
			break
		}
		id = id*10 + int64(c-'0')
	}
	return id
}

//go:norace
func (s *sched) mix(v uint64) {
	s.sdig ^= v
	s.sdig *= 1099511628211
}

//go:norace
func (s *sched) nextTape() uint16 {
	if s.pos >= len(s.tape) {
		s.pos++
		return 0
	}
	v := s.tape[s.pos]
	s.pos++
	return v
}

// current returns the running client task (nil when the root runs or the
// scheduler is idle).
//
//go:norace
func (s *sched) current() *task {
	if s == nil || !s.active {
		return nil
	}
	return s.cur
}

// decide is called by the running client at a yield point; it reports whether
// the client must hand control back to the root.
//
//go:norace
func (s *sched) decide(kind int, node int) bool {
	s.steps++
	s.ypCount[kind]++
	if s.steps > s.maxSteps {
		s.overrun = true
		return false
	}
	e := s.nextTape()
	sw := int(e>>8) >= 256-s.thr && !s.canonical
	s.mix(uint64(s.cur.id)<<32 | uint64(kind)<<24 | uint64(uint32(node+1))<<1 | b2u(sw))
	if !sw {
		return false
	}
	s.switches++
	s.ypSwitched[kind]++
	s.cur.inNode = node
	if node >= 0 {
		for _, o := range s.tasks {
			if o != s.cur && !o.done && o.inNode == node {
				s.overlapNode++
				break
			}
		}
	}
	return true
}

func b2u(b bool) uint64 {
	if b {
		return 1
	}
	return 0
}

// yield is a yield point of the running client.
func (s *sched) yield(kind int, node int) {
	if s == nil {
		return
	}
	t := s.current()
	if t == nil {
		return
	}
	if !s.decide(kind, node) {
		return
	}
	handBackAndPark(s.rootCh, t.id, t.wake)
	s.resumed(t)
}

//go:norace
func (s *sched) resumed(t *task) { t.inNode = -1 }

//go:norace
func (s *sched) markDone(t *task) { t.done = true; t.inNode = -1; s.liveG.Add(-1) }

//go:norace
func (s *sched) noteOpDone(t *task) { t.opsDone++ }

//go:norace
func (s *sched) pick() *task {
	var r []*task
	for _, t := range s.tasks {
		if !t.done && !t.ext {
			r = append(r, t)
		}
	}
	if len(r) == 0 {
		return nil
	}
	if s.canonical {
		// lowest id first - but not the task that has just announced a blocking operation when
		// someone else can run: a loop that polls (select with default) would otherwise starve the
		// goroutine it is waiting for
		t := r[0]
		if t == s.lastAnnounced && len(r) > 1 {
			t = r[1]
		}
		s.lastAnnounced = nil
		return t
	}
	e := s.nextTape()
	t := r[int(e&0xff)%len(r)]
	s.mix(0xABCD<<32 | uint64(t.id))
	return t
}

//go:norace
func (s *sched) setCur(t *task) { s.cur = t }

//go:norace
func (s *sched) setActive(b bool) { s.active = b }

// spawn registers a client; its body runs only when the root resumes it.
func (s *sched) spawn(body func(t *task)) *task {
	t := s.newTask()
	s.wg.Add(1)
	go func() {
		t.goid = curGoid()
		parkInitial(t.wake)
		body(t)
		s.markDone(t)
		s.wg.Done() // a real release edge: the root's final checks are ordered after every client
		finish(s.rootCh, t.id)
	}()
	return t
}

//go:norace
func (s *sched) newTask() *task {
	t := &task{id: len(s.tasks), wake: make(chan struct{}), inNode: -1}
	s.tasks = append(s.tasks, t)
	s.liveG.Add(1)
	return t
}

// ---- goroutines and blocking operations of the library (instrumented build) ----

// spawnHelper is verifyield.Go: called by the running task (or by a library goroutine that
// is itself a task). The new goroutine parks until the root picks it.
//
//go:norace
func (s *sched) spawnHelper(fn func()) bool {
	if s == nil || !s.active || !s.async || s.cur == nil || s.cur.goid != curGoid() {
		return false
	}
	parent := s.cur
	t := s.newTask()
	t.helper = true
	s.helpers++
	if s.newTaskOp != nil {
		s.newTaskOp(parent, t)
	}
	go func() {
		t.goid = curGoid()
		parkInitial(t.wake)
		func() {
			defer func() {
				// a panic in a library goroutine would kill the process; here it ends the task
				if p := recover(); p != nil {
					s.helperPanic = fmt.Sprint(p)
				}
			}()
			fn()
		}()
		if s.taskEnded != nil {
			s.taskEnded(t)
		}
		s.markDone(t)
		finish(s.rootCh, t.id)
	}()
	return true
}

// blocking is verifyield.Blocking: the running task announces an operation the scheduler
// cannot see into and goes on into it without parking.
//
//go:norace
func (s *sched) blocking() any {
	if s == nil || !s.active || !s.async {
		return nil
	}
	t := s.cur
	if t == nil || t.goid != curGoid() {
		return nil
	}
	s.extBlocks++
	s.mix(0xB10C<<32 | uint64(t.id))
	t.state.Store(stExt)
	announce(s.rootCh, t.id|extBit)
	return t
}

// unblocked is verifyield.Unblocked: the operation is over; wait to be picked.
func (s *sched) unblocked(tok any) {
	t, ok := tok.(*task)
	if !ok || t == nil {
		return
	}
	t.state.Store(stPending)
	select {
	case s.idleCh <- struct{}{}:
	default:
	}
	parkInitial(t.wake)
	t.state.Store(stRun)
}

// wrapTimerFunc is verifyield.Wrap: fn will be run by a timer in a goroutine of its own; that
// goroutine becomes a task which is blocked (on the timer) from the start.
//
//go:norace
func (s *sched) wrapTimerFunc(fn func()) func() {
	if s == nil || !s.active || !s.async || s.cur == nil || s.cur.goid != curGoid() {
		return fn
	}
	parent := s.cur
	t := s.newTask()
	s.liveG.Add(-1) // its goroutine does not exist until the timer fires
	t.helper = true
	t.ext = true
	t.state.Store(stExt)
	s.extN++
	s.helpers++
	if s.newTaskOp != nil {
		s.newTaskOp(parent, t)
	}
	return func() {
		t.goid = curGoid()
		s.timerFired(t)
		s.unblocked(t)
		fn()
		if s.taskEnded != nil {
			s.taskEnded(t)
		}
		s.markDone(t)
		finish(s.rootCh, t.id)
	}
}

//go:norace
func (s *sched) timerFired(t *task) { s.liveG.Add(1) }

// settle waits until every other goroutine of the bubble is parked or durably blocked and
// then takes note of the tasks that came back from their blocking operations.
func (s *sched) settle() {
	synctest.Wait()
	s.noteBack()
}

//go:norace
func (s *sched) noteBack() {
	for _, t := range s.tasks {
		if t.ext && !t.done && t.state.Load() == stPending {
			t.ext = false
			s.extN--
		}
	}
}

//go:norace
func (s *sched) noteExt(t *task) { t.ext = true; s.extN++; s.lastAnnounced = t }

// idle: every live task is blocked outside the scheduler. The root blocks too, which lets the
// bubble's clock run on to the next timer; false when nothing came back within two simulated days.
func (s *sched) idle() bool {
	tm := time.NewTimer(48 * time.Hour)
	defer tm.Stop()
	select {
	case <-s.idleCh:
		return true
	case <-tm.C:
		return false
	}
}

//go:norace
func (s *sched) clientsDone() bool {
	for _, t := range s.tasks {
		if !t.helper && !t.done {
			return false
		}
	}
	return true
}

//go:norace
func (s *sched) countAbandoned() {
	for _, t := range s.tasks {
		if !t.done {
			s.abandoned++
		}
	}
}

// run drives all spawned clients to completion. between is called by the root
// after every hand-back (root events: compile-midflight, gc, invariants).
func (s *sched) run(between func(step int)) error {
	s.setActive(true)
	defer s.setActive(false)
	n := 0
	lastOps := make([]int, len(s.tasks))
	parkedSince := make([]int, len(s.tasks))
	s.rootGoid = curGoid()
	for {
		if s.extN > 0 {
			s.settle()
		}
		if s.helpers > 0 && s.clientsDone() {
			// the callers are finished; what the library left running gets a bounded extension
			s.afterDone++
			if s.afterDone > 64 {
				break
			}
		}
		t := s.pick()
		if t == nil {
			if s.extN == 0 {
				break
			}
			if s.clientsDone() && s.afterDone > 8 {
				break
			}
			s.idleJumps++
			if !s.idle() {
				s.hung = !s.clientsDone()
				break
			}
			continue
		}
		s.setCur(t)
		msg := resumeAndWait(t.wake, s.rootCh)
		s.setCur(nil)
		id := msg &^ extBit
		if id != t.id {
			return fmt.Errorf("scheduler: resumed task %d but task %d handed back", t.id, id)
		}
		if msg&extBit != 0 {
			s.noteExt(t)
		}
		n++
		if len(lastOps) < len(s.tasks) {
			lastOps = append(lastOps, make([]int, len(s.tasks)-len(lastOps))...)
			parkedSince = append(parkedSince, make([]int, len(s.tasks)-len(parkedSince))...)
		}
		s.stallProbe(lastOps, parkedSince)
		if between != nil {
			between(n)
		}
		if s.isOverrun() {
			// keep driving clients to completion without further switching
		}
	}
	s.countAbandoned()
	if s.hung {
		return fmt.Errorf("scheduler: every client is blocked inside the library and nothing wakes it within two simulated days")
	}
	s.wg.Wait() // real acquire edge from every client
	return nil
}

//go:norace
func (s *sched) isOverrun() bool { return s.overrun }

// anyMidOp reports whether some client is parked in the middle of an operation.
//
//go:norace
func (s *sched) anyMidOp() bool {
	for _, t := range s.tasks {
		if !t.done && t.inNode != -1 {
			return true
		}
	}
	return false
}

//go:norace
func (s *sched) stallProbe(lastOps, parkedSince []int) {
	total := 0
	for _, t := range s.tasks {
		total += t.opsDone
	}
	for i, t := range s.tasks {
		if t.done || t.inNode == -1 {
			parkedSince[i] = total
			lastOps[i] = t.opsDone
			continue
		}
		if lastOps[i] != t.opsDone {
			lastOps[i] = t.opsDone
			parkedSince[i] = total
		}
		if total-parkedSince[i] >= 2 {
			s.stalls++
			parkedSince[i] = total
		}
	}
}

// ---- the only three places where synchronisation is hidden from the race detector ----

func handBackAndPark(rootCh chan int, id int, wake chan struct{}) {
	raceDisable()
	rootCh <- id
	<-wake
	raceEnable()
}

func resumeAndWait(wake chan struct{}, rootCh chan int) int {
	raceDisable()
	wake <- struct{}{}
	id := <-rootCh
	raceEnable()
	return id
}

func parkInitial(wake chan struct{}) {
	raceDisable()
	<-wake
	raceEnable()
}

func finish(rootCh chan int, id int) {
	raceDisable()
	rootCh <- id
	raceEnable()
}

func announce(rootCh chan int, msg int) {
	raceDisable()
	rootCh <- msg
	raceEnable()
}
