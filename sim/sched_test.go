package verifsim

// Cooperative, tape-driven scheduler. Exactly one task (the root or one client
// goroutine) runs at any instant; control moves only at yield points owned by the
// simulator. The three hand-off functions at the bottom of this file are the only
// places where ThreadSanitizer's view of synchronisation is suspended (see
// DESIGN.md 2.3): they contain nothing but the channel operations.

import (
	"fmt"
	"sync"
)

// Yield point kinds (also used as schedule-digest salt and reach counters).
const (
	ypOpBoundary = iota
	ypNode
	ypCallback
	ypGlobal // a statement touching process-wide state (instrumented build only)
	ypKinds
)

type task struct {
	id   int
	wake chan struct{}
	done bool
	// set by the owner before it hands control back; read by the root (norace)
	inNode  int // id of the node the task is parked in (-1: not inside a node)
	opsDone int
}

type sched struct {
	tape       []uint16
	pos        int
	thr        int // a yield point switches iff hi byte of the tape entry >= 256-thr
	tasks      []*task
	cur        *task // nil while the root runs
	rootCh     chan int
	wg         sync.WaitGroup
	steps      int // yield points reached
	switches   int // yield points that actually handed control to the root
	maxSteps   int
	overrun    bool
	sdig       uint64 // schedule digest
	ypCount    [ypKinds]int
	ypSwitched [ypKinds]int
	// reach probes
	overlapNode int // switches taken while some other task is parked inside the same node
	stalls      int // a task was parked mid-operation while others completed >=2 whole operations
	active      bool
}

func newSched(tape []uint16, thr int, maxSteps int) *sched {
	return &sched{tape: tape, thr: thr, maxSteps: maxSteps, rootCh: make(chan int), sdig: 1469598103934665603}
}

//go:norace
func (s *sched) mix(v uint64) {
	s.sdig ^= v
	s.sdig *= 1099511628211
}

//go:norace
func (s *sched) nextTape() uint16 {
	if s.pos >= len(s.tape) {
		s.pos++
		return 0
	}
	v := s.tape[s.pos]
	s.pos++
	return v
}

// current returns the running client task (nil when the root runs or the
// scheduler is idle).
//
//go:norace
func (s *sched) current() *task {
	if s == nil || !s.active {
		return nil
	}
	return s.cur
}

// decide is called by the running client at a yield point; it reports whether
// the client must hand control back to the root.
//
//go:norace
func (s *sched) decide(kind int, node int) bool {
	s.steps++
	s.ypCount[kind]++
	if s.steps > s.maxSteps {
		s.overrun = true
		return false
	}
	e := s.nextTape()
	sw := int(e>>8) >= 256-s.thr
	s.mix(uint64(s.cur.id)<<32 | uint64(kind)<<24 | uint64(uint32(node+1))<<1 | b2u(sw))
	if !sw {
		return false
	}
	s.switches++
	s.ypSwitched[kind]++
	s.cur.inNode = node
	if node >= 0 {
		for _, o := range s.tasks {
			if o != s.cur && !o.done && o.inNode == node {
				s.overlapNode++
				break
			}
		}
	}
	return true
}

func b2u(b bool) uint64 {
	if b {
		return 1
	}
	return 0
}

// yield is a yield point of the running client.
func (s *sched) yield(kind int, node int) {
	if s == nil {
		return
	}
	t := s.current()
	if t == nil {
		return
	}
	if !s.decide(kind, node) {
		return
	}
	handBackAndPark(s.rootCh, t.id, t.wake)
	s.resumed(t)
}

//go:norace
func (s *sched) resumed(t *task) { t.inNode = -1 }

//go:norace
func (s *sched) markDone(t *task) { t.done = true; t.inNode = -1 }

//go:norace
func (s *sched) noteOpDone(t *task) { t.opsDone++ }

//go:norace
func (s *sched) pick() *task {
	var r []*task
	for _, t := range s.tasks {
		if !t.done {
			r = append(r, t)
		}
	}
	if len(r) == 0 {
		return nil
	}
	e := s.nextTape()
	t := r[int(e&0xff)%len(r)]
	s.mix(0xABCD<<32 | uint64(t.id))
	return t
}

//go:norace
func (s *sched) setCur(t *task) { s.cur = t }

//go:norace
func (s *sched) setActive(b bool) { s.active = b }

// spawn registers a client; its body runs only when the root resumes it.
func (s *sched) spawn(body func(t *task)) *task {
	t := &task{id: len(s.tasks), wake: make(chan struct{}), inNode: -1}
	s.tasks = append(s.tasks, t)
	s.wg.Add(1)
	go func() {
		parkInitial(t.wake)
		body(t)
		s.markDone(t)
		s.wg.Done() // a real release edge: the root's final checks are ordered after every client
		finish(s.rootCh, t.id)
	}()
	return t
}

// run drives all spawned clients to completion. between is called by the root
// after every hand-back (root events: compile-midflight, gc, invariants).
func (s *sched) run(between func(step int)) error {
	s.setActive(true)
	defer s.setActive(false)
	n := 0
	lastOps := make([]int, len(s.tasks))
	parkedSince := make([]int, len(s.tasks))
	for {
		t := s.pick()
		if t == nil {
			break
		}
		s.setCur(t)
		id := resumeAndWait(t.wake, s.rootCh)
		s.setCur(nil)
		if id != t.id {
			return fmt.Errorf("scheduler: resumed task %d but task %d handed back", t.id, id)
		}
		n++
		s.stallProbe(lastOps, parkedSince)
		if between != nil {
			between(n)
		}
		if s.isOverrun() {
			// keep driving clients to completion without further switching
		}
	}
	s.wg.Wait() // real acquire edge from every client
	return nil
}

//go:norace
func (s *sched) isOverrun() bool { return s.overrun }

// anyMidOp reports whether some client is parked in the middle of an operation.
//
//go:norace
func (s *sched) anyMidOp() bool {
	for _, t := range s.tasks {
		if !t.done && t.inNode != -1 {
			return true
		}
	}
	return false
}

//go:norace
func (s *sched) stallProbe(lastOps, parkedSince []int) {
	total := 0
	for _, t := range s.tasks {
		total += t.opsDone
	}
	for i, t := range s.tasks {
		if t.done || t.inNode == -1 {
			parkedSince[i] = total
			lastOps[i] = t.opsDone
			continue
		}
		if lastOps[i] != t.opsDone {
			lastOps[i] = t.opsDone
			parkedSince[i] = total
		}
		if total-parkedSince[i] >= 2 {
			s.stalls++
			parkedSince[i] = total
		}
	}
}

// ---- the only three places where synchronisation is hidden from the race detector ----

func handBackAndPark(rootCh chan int, id int, wake chan struct{}) {
	raceDisable()
	rootCh <- id
	<-wake
	raceEnable()
}

func resumeAndWait(wake chan struct{}, rootCh chan int) int {
	raceDisable()
	wake <- struct{}{}
	id := <-rootCh
	raceEnable()
	return id
}

func parkInitial(wake chan struct{}) {
	raceDisable()
	<-wake
	raceEnable()
}

func finish(rootCh chan int, id int) {
	raceDisable()
	rootCh <- id
	raceEnable()
}
