package verifsim

// Grammar-directed, loosely typed FHIRPath program generator. Paths are taken
// from the generated resource instances so that most sub-expressions are
// non-empty. A pure function of the rng and the resources.

import (
	"fmt"
	"strings"

	"google.golang.org/protobuf/proto"
	"google.golang.org/protobuf/reflect/protoreflect"
)

const (
	kComplex = iota
	kStr
	kInt
	kDec
	kBool
	kDate
	kDateTime
	kTime
	kQty
	kUnknown
)

type focus struct {
	msg  protoreflect.Message // representative instance (nil: unknown)
	kind int
	many bool
}

type progGen struct {
	r       rng
	res     []proto.Message
	cb      []COpt // callbacks available for splicing (name -> catalogue key)
	cbUsed  map[string]bool
	varsS   []string // names of env variables usable as collections of the root kind
	varsK   map[string]int
	varUsed map[string]bool
	cbRate  float64
	exp     bool // experimental functions available
	usedExp bool
	budget  int
}

func primKind(d protoreflect.MessageDescriptor) int {
	switch string(d.Name()) {
	case "Boolean":
		return kBool
	case "Integer", "PositiveInt", "UnsignedInt":
		return kInt
	case "Decimal":
		return kDec
	case "Date":
		return kDate
	case "DateTime", "Instant":
		return kDateTime
	case "Time":
		return kTime
	case "Quantity":
		return kQty
	}
	if isPrimitiveDesc(d) {
		return kStr
	}
	return kComplex
}

// unwrapInstance mirrors what navigation yields for wrappers: choice wrappers and
// ContainedResource are replaced by the populated alternative.
func unwrapInstance(m protoreflect.Message) protoreflect.Message {
	d := m.Descriptor()
	if d.Oneofs().Len() == 1 && (strings.HasSuffix(string(d.Name()), "X") || d.Name() == "ContainedResource") {
		if fd := m.WhichOneof(d.Oneofs().Get(0)); fd != nil && fd.Kind() == protoreflect.MessageKind {
			return m.Get(fd).Message()
		}
	}
	return m
}

// step picks one navigation step from m. Returns the FHIRPath field name, the
// representative child (nil when the field is unpopulated) and whether it is a list.
func (g *progGen) step(m protoreflect.Message) (name string, child protoreflect.Message, many bool, ok bool) {
	d := m.Descriptor()
	fields := d.Fields()
	var populated, all []protoreflect.FieldDescriptor
	for i := 0; i < fields.Len(); i++ {
		fd := fields.Get(i)
		if fd.Kind() != protoreflect.MessageKind || fd.ContainingOneof() != nil {
			continue
		}
		if fd.Message().FullName() == "google.protobuf.Any" {
			// contained: navigable, children are unpacked per evaluation
			all = append(all, fd)
			if m.Has(fd) {
				populated = append(populated, fd)
			}
			continue
		}
		all = append(all, fd)
		if m.Has(fd) {
			populated = append(populated, fd)
		}
	}
	if len(all) == 0 {
		return "", nil, false, false
	}
	var fd protoreflect.FieldDescriptor
	if len(populated) > 0 && g.r.p(0.9) {
		fd = pick(g.r, populated)
	} else {
		fd = pick(g.r, all)
	}
	name = fd.JSONName()
	many = fd.IsList()
	if !m.Has(fd) || fd.Message().FullName() == "google.protobuf.Any" {
		return name, nil, many, true
	}
	if many {
		l := m.Get(fd).List()
		child = l.Get(g.r.n(l.Len())).Message()
	} else {
		child = m.Get(fd).Message()
	}
	return name, unwrapInstance(child), many, true
}

func (g *progGen) lit(kind int) string {
	switch kind {
	case kStr:
		s := pick(g.r, strVocab)
		if g.r.p(0.12) {
			s = fmt.Sprintf("u%d", g.r.n(1000000)) // a value this process has not seen (cold memo keys)
		}
		s = strings.ReplaceAll(s, `\`, `\\`)
		s = strings.ReplaceAll(s, `'`, `\'`)
		s = strings.ReplaceAll(s, "\t", `\t`)
		return "'" + s + "'"
	case kInt:
		return fmt.Sprint(pick(g.r, []int{0, 1, 2, 3, 5, 7, 10, 42, 100, 2147483647}))
	case kDec:
		return pick(g.r, []string{"0.0", "1.0", "1.5", "2.25", "3.14159", "100.001", "0.5"})
	case kBool:
		return pick(g.r, []string{"true", "false"})
	case kDate:
		return pick(g.r, []string{"@2020-02-29", "@2020-03-07", "@2019-12-31", "@2020-03", "@2020", "@2000-02-29", "@2020-10-31"})
	case kDateTime:
		return pick(g.r, dateTimeLits)
	case kTime:
		return pick(g.r, []string{"@T12:30", "@T00:00:00", "@T23:59:59.999", "@T08", "@T14:30:15"})
	case kQty:
		return pick(g.r, []string{"1 day", "2 days", "1 week", "1 month", "6 months", "1 year", "24 hours", "36 hours", "90 minutes", "5 'mg'", "1.5 'kg'", "3 seconds", "250 milliseconds", "1 'd'", "10 'cm'"})
	}
	return "{}"
}

// DateTime literals biased toward offsets real zones use, next to their transitions.
var dateTimeLits = []string{
	"@2020-03-07T12:00:00-03:30", "@2020-03-08T12:00:00-02:30", "@2020-10-31T12:00:00-02:30", "@2020-03-07T23:30:00.000-03:30",
	"@2020-04-04T12:00:00+13:45", "@2020-09-26T12:00:00+12:45", "@2020-04-05T02:30:00+12:45",
	"@2020-03-28T12:00:00+00:00", "@2020-10-24T12:00:00+01:00", "@2020-03-28T12:00:00Z", "@2020-03-28T23:00:00+05:30",
	"@2020-04-04T12:00:00+11:00", "@2020-10-03T12:00:00+10:30",
	"@2020-02-29T00:00:00.000Z", "@2019-12-31T23:59:59Z", "@2020-03-07T12-03:30", "@2020-03-07T12:00-03:30",
	"@2020-03-07T12:00:00", "@2020-03-07T12", "@2020-03-07T", "@2020-03T", "@2020T", "@2021-06-15T10:00:00-05:00",
}

var typeNames = []string{"Patient", "Observation", "HumanName", "string", "String", "integer", "Integer", "boolean", "Boolean", "Quantity", "System.Quantity", "FHIR.Quantity",
	"dateTime", "DateTime", "date", "Date", "code", "uri", "decimal", "Decimal", "CodeableConcept", "Reference", "Period", "Coding", "FHIR.Patient", "System.String", "Resource", "DomainResource", "Element", "Encounter", "Bundle", "Practitioner", "Organization", "Condition", "id", "instant", "time", "Time", "Extension", "Identifier", "Address", "ContactPoint"}

func (g *progGen) spliceCB(s string) string {
	if len(g.cb) == 0 || !g.r.p(g.cbRate) {
		return s
	}
	c := pick(g.r, g.cb)
	g.cbUsed[c.Name] = true
	return s + "." + c.Name + "()"
}

// path walks the instance from f and returns a navigation path (without a leading dot).
func (g *progGen) path(f focus, maxSteps int) (string, focus) {
	cur := f
	var parts []string
	steps := 1 + g.r.n(maxSteps)
	for i := 0; i < steps; i++ {
		if cur.msg == nil {
			break
		}
		if k := primKind(cur.msg.Descriptor()); k != kComplex && k != kQty {
			// on a primitive: sometimes go to .value / .extension / .id
			if g.r.p(0.25) {
				switch g.r.n(5) {
				case 0, 1, 2:
					parts = append(parts, "value")
					cur = focus{nil, k, cur.many}
				case 3:
					parts = append(parts, "extension")
					cur = focus{nil, kComplex, true}
				case 4:
					parts = append(parts, pick(g.r, []string{"id", "precision", "timezone", "valueUs", "value_us"}))
					cur = focus{nil, kUnknown, cur.many}
				}
			}
			break
		}
		if cur.msg.Descriptor().FullName() == r4+"Reference" && g.r.p(0.35) {
			// the synthesised reference string
			parts = append(parts, "reference")
			cur = focus{nil, kStr, cur.many}
			break
		}
		name, child, many, ok := g.step(cur.msg)
		if !ok {
			break
		}
		seg := name
		if g.r.p(0.03) {
			seg = pick(g.r, []string{"nosuchfield", "given_name", "Value", "resourceType"})
		}
		parts = append(parts, seg)
		nk := kComplex
		if child != nil {
			nk = primKind(child.Descriptor())
		} else {
			nk = kUnknown
		}
		cur = focus{child, nk, cur.many || many}
		if many && g.r.p(0.25) {
			switch g.r.n(4) {
			case 0:
				parts[len(parts)-1] += fmt.Sprintf("[%d]", g.r.n(3))
			case 1:
				parts = append(parts, "first()")
			case 2:
				parts = append(parts, "last()")
			case 3:
				parts = append(parts, fmt.Sprintf("skip(%d).first()", g.r.n(2)))
			}
			cur.many = false
		}
		if g.r.p(g.cbRate / 2) {
			parts[len(parts)-1] = g.spliceCB(parts[len(parts)-1])
		}
	}
	if len(parts) == 0 {
		return "$this", cur
	}
	return strings.Join(parts, "."), cur
}

// rootFocus returns a focus on resource i.
func (g *progGen) rootFocus(i int) focus {
	return focus{g.res[i].ProtoReflect(), kComplex, false}
}

func (g *progGen) rootName(f focus) string {
	if f.msg == nil {
		return "Patient"
	}
	n := string(f.msg.Descriptor().Name())
	if g.r.p(0.04) {
		return pick(g.r, rootTypes)
	}
	return n
}

// coll generates an expression yielding a collection, relative to f. top says
// whether a leading type name is allowed.
func (g *progGen) coll(f focus, depth int, top bool) (string, focus) {
	g.budget--
	if depth <= 0 || g.budget <= 0 {
		p, nf := g.path(f, 3)
		if top && f.msg != nil && g.r.p(0.7) {
			p = g.rootName(f) + "." + p
		}
		return p, nf
	}
	switch g.r.n(17) {
	case 0, 1, 2:
		p, nf := g.path(f, 4)
		if top && f.msg != nil && g.r.p(0.7) {
			p = g.rootName(f) + "." + p
		}
		return p, nf
	case 3, 4:
		b, bf := g.coll(f, depth-1, top)
		item := bf
		item.many = false
		return g.spliceCB(fmt.Sprintf("%s.where(%s)", wrapIfOp(b), g.boolean(item, depth-1))), bf
	case 5:
		b, bf := g.coll(f, depth-1, top)
		item := bf
		item.many = false
		s, sf := g.any(item, depth-1)
		sf.many = true
		return g.spliceCB(fmt.Sprintf("%s.select(%s)", wrapIfOp(b), s)), sf
	case 6:
		b, bf := g.coll(f, depth-1, top)
		fn := pick(g.r, []string{"first()", "last()", "tail()", fmt.Sprintf("skip(%d)", g.r.n(3)), fmt.Sprintf("take(%d)", g.r.n(3)), "distinct()", fmt.Sprintf("skip(%s)", g.scalar(kInt, f, depth-1)), "take(0)", "skip(-1)", "take(100)"})
		return g.spliceCB(wrapIfOp(b) + "." + fn), bf
	case 7:
		b, bf := g.coll(f, depth-1, top)
		idx := fmt.Sprint(g.r.n(3))
		if g.r.p(0.2) {
			idx = g.scalar(kInt, f, depth-1)
		}
		bf.many = false
		return fmt.Sprintf("%s[%s]", wrapIfOp(b), idx), bf
	case 8:
		b, _ := g.coll(f, depth-1, top)
		fn := pick(g.r, []string{"children()", "descendants()", "children().children()", "descendants().take(5)", "descendants().distinct()", "descendants().distinct().take(3)", "children().children().distinct().first()"})
		return wrapIfOp(b) + "." + fn, focus{nil, kUnknown, true}
	case 9:
		a, af := g.coll(f, depth-1, top)
		b, _ := g.coll(f, depth-1, top)
		fn := pick(g.r, []string{"intersect", "exclude"})
		return fmt.Sprintf("%s.%s(%s)", wrapIfOp(a), fn, b), af
	case 10:
		a, af := g.coll(f, depth-1, false)
		b, _ := g.coll(f, depth-1, false)
		if g.r.p(0.3) {
			return fmt.Sprintf("iif(%s, %s)", g.boolean(f, depth-1), a), af
		}
		return fmt.Sprintf("iif(%s, %s, %s)", g.boolean(f, depth-1), a, b), af
	case 11:
		if len(g.varsS) > 0 {
			v := pick(g.r, g.varsS)
			g.varUsed[v] = true
			k := g.varsK[v]
			s := "%" + v
			if g.r.p(0.1) {
				s = pick(g.r, []string{"%context", "%ucum", "%nosuchvar", "%`context`"})
				k = kUnknown
			}
			if k == kComplex && g.r.p(0.5) {
				// navigate from the variable as if it were the root
				p, nf := g.path(f, 3)
				return s + "." + p, nf
			}
			return s, focus{nil, k, true}
		}
		p, nf := g.path(f, 3)
		return p, nf
	case 12:
		b, bf := g.coll(f, depth-1, top)
		return fmt.Sprintf("%s.extension('%s')", wrapIfOp(b), pick(g.r, extURLs)), focus{nil, kComplex, bf.many}
	case 13:
		b, bf := g.coll(f, depth-1, top)
		bf.many = false
		t := pick(g.r, typeNames)
		if bf.msg != nil && g.r.p(0.5) {
			t = string(bf.msg.Descriptor().Name())
			if isPrimitiveDesc(bf.msg.Descriptor()) {
				t = strings.ToLower(t[:1]) + t[1:]
			}
		}
		if g.r.p(0.5) {
			return fmt.Sprintf("(%s as %s)", b, t), bf
		}
		return fmt.Sprintf("%s.where($this is %s)", wrapIfOp(b), t), bf
	case 15:
		a, af := g.coll(f, depth-1, top)
		b, _ := g.coll(f, depth-1, top)
		switch g.r.n(4) {
		case 0, 1:
			return fmt.Sprintf("%s.union(%s)", wrapIfOp(a), b), af
		case 2:
			return fmt.Sprintf("%s.combine(%s)", wrapIfOp(a), b), af
		default:
			return fmt.Sprintf("%s.%s", wrapIfOp(a), pick(g.r, []string{"single()", "repeat(children())", "repeat($this)", "ofType(string)", "ofType(HumanName)", "ofType(Quantity)", "trace('t')", "toChars()"})), focus{nil, kUnknown, true}
		}
	case 14:
		// a scalar as a collection
		k := pick(g.r, []int{kStr, kInt, kDec, kBool, kDate, kDateTime, kTime, kQty})
		return g.scalar(k, f, depth-1), focus{nil, k, false}
	default:
		p, nf := g.path(f, 2)
		return g.spliceCB(p), nf
	}
}

func wrapIfOp(s string) string {
	if strings.ContainsAny(s, " ") && !(strings.HasPrefix(s, "(") && strings.HasSuffix(s, ")")) {
		return "(" + s + ")"
	}
	return s
}

// pathOfKind tries to find a path from f to a node of kind k.
func (g *progGen) pathOfKind(f focus, k int) (string, bool) {
	for try := 0; try < 6; try++ {
		p, nf := g.path(f, 4)
		if nf.kind == k && nf.msg != nil {
			return p, true
		}
	}
	return "", false
}

func (g *progGen) any(f focus, depth int) (string, focus) {
	if g.r.p(0.5) {
		return g.coll(f, depth, false)
	}
	k := pick(g.r, []int{kStr, kInt, kDec, kBool, kDate, kDateTime, kTime, kQty})
	return g.scalar(k, f, depth), focus{nil, k, false}
}

// scalar generates an expression that (probably) yields a single value of kind k.
func (g *progGen) scalar(k int, f focus, depth int) string {
	g.budget--
	if depth <= 0 || g.budget <= 0 {
		if g.r.p(0.5) {
			if p, ok := g.pathOfKind(f, k); ok {
				return p
			}
		}
		return g.lit(k)
	}
	d := depth - 1
	switch k {
	case kBool:
		return g.boolean(f, depth)
	case kStr:
		switch g.r.n(14) {
		case 0:
			return g.lit(kStr)
		case 1, 2:
			if p, ok := g.pathOfKind(f, kStr); ok {
				return p
			}
			return g.lit(kStr)
		case 3:
			return fmt.Sprintf("%s & %s", g.operand(kStr, f, d), g.operand(kStr, f, d))
		case 4:
			return fmt.Sprintf("%s + %s", g.operand(kStr, f, d), g.operand(kStr, f, d))
		case 5:
			c, _ := g.coll(f, d, false)
			return fmt.Sprintf("%s & %s", wrapIfOp(c), g.operand(kStr, f, d)) // collection (possibly empty) on the left of &
		case 6:
			return fmt.Sprintf("%s.%s", g.operand(kStr, f, d), pick(g.r, []string{"upper()", "lower()", "toString()", "trace_not_there()"}[:3]))
		case 7:
			if g.r.p(0.5) {
				return fmt.Sprintf("%s.substring(%s)", g.operand(kStr, f, d), g.scalar(kInt, f, d))
			}
			return fmt.Sprintf("%s.substring(%d, %d)", g.operand(kStr, f, d), g.r.n(4), g.r.n(5))
		case 8:
			return fmt.Sprintf("%s.replace(%s, %s)", g.operand(kStr, f, d), g.lit(kStr), g.lit(kStr))
		case 9:
			pat := pick(g.r, []string{"[aeiou]", "^a", "\\\\d+", "(a|b)", "."})
			if g.r.p(0.4) {
				pat = fmt.Sprintf("%s|zq%dz", pat, g.r.n(1000000))
			}
			return fmt.Sprintf("%s.replaceMatches('%s', '%s')", g.operand(kStr, f, d), pat, pick(g.r, []string{"_", "", "x"}))
		case 10:
			k2 := pick(g.r, []int{kInt, kDec, kBool, kDate, kDateTime, kTime, kQty})
			return fmt.Sprintf("%s.toString()", g.operand(k2, f, d))
		case 11:
			if g.exp {
				g.usedExp = true
				c, _ := g.coll(f, d, false)
				return fmt.Sprintf("%s.select($this.toString()).join('%s')", wrapIfOp(c), pick(g.r, []string{",", "", " | "}))
			}
			return g.lit(kStr)
		case 12:
			return fmt.Sprintf("iif(%s, %s, %s)", g.boolean(f, d), g.scalar(kStr, f, d), g.scalar(kStr, f, d))
		default:
			c, _ := g.coll(f, d, false)
			return fmt.Sprintf("%s.toString()", wrapIfOp(c))
		}
	case kInt:
		switch g.r.n(12) {
		case 0, 1:
			return g.lit(kInt)
		case 2:
			if p, ok := g.pathOfKind(f, kInt); ok {
				return p
			}
			return g.lit(kInt)
		case 3, 4:
			c, _ := g.coll(f, d, false)
			return fmt.Sprintf("%s.count()", wrapIfOp(c))
		case 5:
			return fmt.Sprintf("%s %s %s", g.operand(kInt, f, d), pick(g.r, []string{"+", "-", "*", "div", "mod"}), g.operand(kInt, f, d))
		case 6:
			return fmt.Sprintf("%s.length()", g.operand(kStr, f, d))
		case 7:
			return fmt.Sprintf("%s.indexOf(%s)", g.operand(kStr, f, d), g.lit(kStr))
		case 8:
			return fmt.Sprintf("-%s", g.operand(kInt, f, d))
		case 9:
			return fmt.Sprintf("%s.%s", g.operand(kInt, f, d), pick(g.r, []string{"abs()", "toInteger()"}))
		case 10:
			return fmt.Sprintf("%s.%s", g.operand(kDec, f, d), pick(g.r, []string{"ceiling()", "floor()", "truncate()", "round()"}))
		default:
			return fmt.Sprintf("%s.toInteger()", g.operand(pick(g.r, []int{kStr, kBool, kInt}), f, d))
		}
	case kDec:
		switch g.r.n(10) {
		case 0, 1:
			return g.lit(kDec)
		case 2:
			if p, ok := g.pathOfKind(f, kDec); ok {
				return p
			}
			return g.lit(kDec)
		case 3, 4:
			return fmt.Sprintf("%s %s %s", g.operand(pick(g.r, []int{kDec, kInt}), f, d), pick(g.r, []string{"+", "-", "*", "/", "div", "mod"}), g.operand(pick(g.r, []int{kDec, kInt}), f, d))
		case 5:
			return fmt.Sprintf("%s.%s", g.operand(kDec, f, d), pick(g.r, []string{"abs()", "sqrt()", "ln()", "exp()", "round(2)", "toDecimal()", "log(10)", "power(2)", "power(0.5)"}))
		case 6:
			return fmt.Sprintf("%s.%s", g.operand(kInt, f, d), pick(g.r, []string{"sqrt()", "toDecimal()", "power(2)", "exp()", "ln()", "log(2)"}))
		case 7:
			return fmt.Sprintf("%s / %s", g.operand(kInt, f, d), g.operand(kInt, f, d))
		case 8:
			return fmt.Sprintf("-%s", g.operand(kDec, f, d))
		default:
			return fmt.Sprintf("%s.toDecimal()", g.operand(pick(g.r, []int{kStr, kInt, kBool}), f, d))
		}
	case kDate:
		switch g.r.n(8) {
		case 0, 1:
			return g.lit(kDate)
		case 2:
			if p, ok := g.pathOfKind(f, kDate); ok {
				return p
			}
			return "today()"
		case 3:
			return "today()"
		case 4, 5:
			return fmt.Sprintf("%s %s %s", g.operand(kDate, f, d), pick(g.r, []string{"+", "-"}), g.timeQty())
		case 6:
			return fmt.Sprintf("%s.toDate()", g.operand(pick(g.r, []int{kDateTime, kStr, kDate}), f, d))
		default:
			return fmt.Sprintf("iif(%s, %s, %s)", g.boolean(f, d), g.scalar(kDate, f, d), g.lit(kDate))
		}
	case kDateTime:
		switch g.r.n(9) {
		case 0, 1:
			return g.lit(kDateTime)
		case 2:
			if p, ok := g.pathOfKind(f, kDateTime); ok {
				return p
			}
			return "now()"
		case 3:
			return "now()"
		case 4, 5, 6:
			return fmt.Sprintf("%s %s %s", g.operand(kDateTime, f, d), pick(g.r, []string{"+", "-"}), g.timeQty())
		case 7:
			return fmt.Sprintf("%s.toDateTime()", g.operand(pick(g.r, []int{kDateTime, kStr, kDate}), f, d))
		default:
			return fmt.Sprintf("iif(%s, %s, %s)", g.boolean(f, d), g.scalar(kDateTime, f, d), g.lit(kDateTime))
		}
	case kTime:
		switch g.r.n(6) {
		case 0, 1:
			return g.lit(kTime)
		case 2:
			if p, ok := g.pathOfKind(f, kTime); ok {
				return p
			}
			return "timeOfDay()"
		case 3:
			return "timeOfDay()"
		case 4:
			return fmt.Sprintf("%s %s %s", g.operand(kTime, f, d), pick(g.r, []string{"+", "-"}), pick(g.r, []string{"1 hour", "90 minutes", "30 seconds", "500 milliseconds", "25 hours"}))
		default:
			return fmt.Sprintf("%s.toTime()", g.operand(pick(g.r, []int{kTime, kStr}), f, d))
		}
	case kQty:
		switch g.r.n(7) {
		case 0, 1:
			return g.lit(kQty)
		case 2:
			if p, ok := g.pathOfKind(f, kQty); ok {
				return p
			}
			return g.lit(kQty)
		case 3:
			return fmt.Sprintf("%s %s %s", g.operand(kQty, f, d), pick(g.r, []string{"+", "-"}), g.operand(kQty, f, d))
		case 4:
			return fmt.Sprintf("%s.toQuantity()", g.operand(pick(g.r, []int{kInt, kDec, kStr, kQty}), f, d))
		case 5:
			return fmt.Sprintf("%s * %s", g.operand(kQty, f, d), g.operand(kInt, f, d))
		default:
			return fmt.Sprintf("-%s", g.operand(kQty, f, d))
		}
	}
	return g.lit(k)
}

func (g *progGen) timeQty() string {
	return pick(g.r, []string{"1 day", "2 days", "1 week", "1 month", "6 months", "1 year", "24 hours", "36 hours", "90 minutes", "1 hour", "3 seconds", "250 milliseconds", "400 days", "13 months", "1 'd'", "1 'mo'", "1 'a'"})
}

// operand is scalar() wrapped in parentheses when it contains an operator.
func (g *progGen) operand(k int, f focus, depth int) string {
	return wrapIfOp(g.scalar(k, f, depth))
}

func (g *progGen) boolean(f focus, depth int) string {
	g.budget--
	if depth <= 0 || g.budget <= 0 {
		switch g.r.n(4) {
		case 0:
			return g.lit(kBool)
		case 1:
			p, _ := g.path(f, 2)
			return p + ".exists()"
		case 2:
			p, nf := g.path(f, 3)
			if nf.kind != kComplex && nf.kind != kUnknown {
				return fmt.Sprintf("%s = %s", p, g.lit(nf.kind))
			}
			return p + ".empty()"
		default:
			if p, ok := g.pathOfKind(f, kBool); ok {
				return p
			}
			return g.lit(kBool)
		}
	}
	d := depth - 1
	switch g.r.n(18) {
	case 0:
		return g.lit(kBool)
	case 1, 2:
		p, nf := g.path(f, 3)
		if nf.kind != kComplex && nf.kind != kUnknown {
			op := pick(g.r, []string{"=", "!=", "<", "<=", ">", ">="})
			return fmt.Sprintf("%s %s %s", p, op, g.operand(nf.kind, f, d))
		}
		return p + pick(g.r, []string{".exists()", ".empty()", ".count() > 1", ".isDistinct()"})
	case 3:
		k := pick(g.r, []int{kStr, kInt, kDec, kDate, kDateTime, kTime, kQty})
		k2 := k
		if g.r.p(0.15) {
			k2 = pick(g.r, []int{kStr, kInt, kDec, kDate, kDateTime, kTime, kQty})
		}
		op := pick(g.r, []string{"=", "!=", "<", "<=", ">", ">="})
		return fmt.Sprintf("%s %s %s", g.operand(k, f, d), op, g.operand(k2, f, d))
	case 4, 5:
		op := pick(g.r, []string{"and", "or", "xor", "implies"})
		return fmt.Sprintf("(%s) %s (%s)", g.boolean(f, d), op, g.boolean(f, d))
	case 6:
		return fmt.Sprintf("(%s).not()", g.boolean(f, d))
	case 7:
		c, cf := g.coll(f, d, false)
		item := cf
		item.many = false
		fn := pick(g.r, []string{"exists", "all"})
		return fmt.Sprintf("%s.%s(%s)", wrapIfOp(c), fn, g.boolean(item, d))
	case 8:
		c, _ := g.coll(f, d, false)
		return wrapIfOp(c) + pick(g.r, []string{".exists()", ".empty()", ".isDistinct()", ".allTrue()", ".anyTrue()", ".allFalse()", ".anyFalse()", ".not()"})
	case 9:
		c, cf := g.coll(f, d, false)
		t := pick(g.r, typeNames)
		if cf.msg != nil && g.r.p(0.5) {
			t = string(cf.msg.Descriptor().Name())
			if isPrimitiveDesc(cf.msg.Descriptor()) {
				t = strings.ToLower(t[:1]) + t[1:]
			}
		}
		return fmt.Sprintf("(%s is %s)", c, t)
	case 10:
		fn := pick(g.r, []string{"startsWith", "endsWith", "contains", "matches"})
		arg := g.lit(kStr)
		if fn == "matches" {
			arg = pick(g.r, []string{"'^[a-z]+$'", "'.*a.*'", "'\\\\d+'", "'('", "'[A-Z]'"})
			if g.r.p(0.4) && arg != "'('" {
				arg = fmt.Sprintf("%s|zq%dz'", strings.TrimSuffix(arg, "'"), g.r.n(1000000))
			}
		}
		return fmt.Sprintf("%s.%s(%s)", g.operand(kStr, f, d), fn, arg)
	case 11:
		k := pick(g.r, []int{kStr, kInt, kDec, kBool, kDate, kDateTime, kTime, kQty})
		fn := pick(g.r, []string{"convertsToBoolean()", "convertsToInteger()", "convertsToDecimal()", "convertsToString()", "convertsToDate()", "convertToDateTime()", "convertsToTime()", "convertsToQuantity()"})
		return fmt.Sprintf("%s.%s", g.operand(k, f, d), fn)
	case 12:
		return fmt.Sprintf("%s.toBoolean()", g.operand(pick(g.r, []int{kStr, kInt, kBool, kDec}), f, d))
	case 13:
		a, _ := g.coll(f, d, false)
		b, _ := g.coll(f, d, false)
		return fmt.Sprintf("%s %s %s", wrapIfOp(a), pick(g.r, []string{"=", "!="}), wrapIfOp(b))
	case 14:
		// time functions compared with each other / literals
		return pick(g.r, []string{"now() = now()", "today() = today()", "timeOfDay() = timeOfDay()", "now() > @2020-01-01T00:00:00Z", "today() > @2020-01-01", "now() - 1 day < now()", "today() + 1 day > today()", "now().toString().length() > 0"})
	case 15:
		return fmt.Sprintf("iif(%s, %s, %s)", g.boolean(f, d), g.boolean(f, d), g.boolean(f, d))
	default:
		if p, ok := g.pathOfKind(f, kBool); ok {
			return p
		}
		return g.lit(kBool)
	}
}

// program generates one top-level program over resource ri.
func (g *progGen) program(ri int, depth int) string {
	g.budget = 14 + g.r.n(20)
	f := g.rootFocus(ri)
	switch g.r.n(10) {
	case 0, 1, 2, 3:
		s, _ := g.coll(f, depth, true)
		return s
	case 4, 5:
		return g.boolean(f, depth)
	case 6:
		k := pick(g.r, []int{kStr, kInt, kDec, kDate, kDateTime, kTime, kQty})
		return g.scalar(k, f, depth)
	case 7:
		// date/time arithmetic heavy (zone-sensitive paths)
		return g.scalar(pick(g.r, []int{kDateTime, kDateTime, kDate}), f, depth)
	default:
		s, _ := g.any(f, depth)
		return s
	}
}
