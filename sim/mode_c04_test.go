package verifsim

import (
	"fmt"
	"reflect"
	"runtime"
	"sort"
	"strings"
	"testing"
	"time"
	_ "time/tzdata"

	"github.com/verily-src/fhirpath-go/fhirpath"
	"github.com/verily-src/fhirpath-go/fhirpath/compopts"
	"github.com/verily-src/fhirpath-go/fhirpath/internal/funcs"
)

// ---------------------------------------------------------------------------
// Process zone (N2).

var zoneCache = map[string]*time.Location{}

func setLocal(name string) error {
	if name == "" {
		name = "UTC"
	}
	loc, ok := zoneCache[name]
	if !ok {
		var err error
		loc, err = time.LoadLocation(name)
		if err != nil {
			return err
		}
		zoneCache[name] = loc
	}
	time.Local = loc
	return nil
}

// ---------------------------------------------------------------------------
// Function-table fingerprints (H2) and the name model.

func tableFingerprint(t funcs.FunctionTable) string {
	names := make([]string, 0, len(t))
	for k := range t {
		names = append(names, k)
	}
	sort.Strings(names)
	var b strings.Builder
	for _, n := range names {
		f := t[n]
		fmt.Fprintf(&b, "%s:%d:%d:%v:%x;", n, f.MinArity, f.MaxArity, f.IsTypeFunction, reflect.ValueOf(f.Func).Pointer())
	}
	return digest(b.String())
}

type tablesSnap struct {
	baseFP, expFP string
	base, exp     map[string]bool
}

func snapTables() tablesSnap {
	s := tablesSnap{base: map[string]bool{}, exp: map[string]bool{}}
	bt, et := funcs.VerifBaseTable(), funcs.VerifExperimentalTable()
	s.baseFP, s.expFP = tableFingerprint(bt), tableFingerprint(et)
	for k := range bt {
		s.base[k] = true
	}
	for k := range et {
		s.exp[k] = true
	}
	return s
}

// processTables is taken once per process, before any case runs.
var processTables tablesSnap

// modelOptsFail is the reference model of option application to the function
// registry: does this option list have to make Compile fail?
func modelOptsFail(opts []COpt, ts *tablesSnap) bool {
	set := map[string]bool{}
	for k := range ts.base {
		set[k] = true
	}
	fail := false
	for _, o := range opts {
		switch o.Kind {
		case "exp":
			for k := range ts.exp {
				set[k] = true
			}
		case "fn":
			if strings.HasPrefix(o.Fn, "badsig") {
				fail = true
				continue
			}
			if set[o.Name] {
				fail = true
				continue
			}
			set[o.Name] = true
		}
	}
	return fail
}

// ---------------------------------------------------------------------------

type zoneCfg struct{ compile, eval string }

func (c *Case) tapeFor() []uint16 {
	return c.Tape
}

type c04Exec struct {
	c   *Case
	v   *Verdict
	t   *testing.T
	out []string // canonical outcome of every op of the concurrent pass (flattened), per sub-run
}

func (e *c04Exec) violate(oracle, class, detail string) {
	e.v.Violations = append(e.v.Violations, Violation{Property: e.c.Mode, Oracle: oracle, Class: class, Detail: short(detail, 1500)})
}

func execC04(t *testing.T, c *Case) *Verdict {
	v := &Verdict{}
	v.Stats.Runs = 1
	e := &c04Exec{c: c, v: v, t: t}
	zones := c.Zones
	if len(zones) == 0 {
		zones = []string{"UTC"}
	}
	var subs []zoneCfg
	for _, z := range zones {
		subs = append(subs, zoneCfg{z, z})
	}
	if len(c.MixZone) == 2 {
		subs = append(subs, zoneCfg{c.MixZone[0], c.MixZone[1]})
	}
	var base []string
	var sdigs, odigs []string
	for si, z := range subs {
		out, sd, infra := e.subRun(z)
		if infra != "" {
			v.Infra = fmt.Sprintf("sub-run %d (%s/%s): %s", si, z.compile, z.eval, infra)
			break
		}
		sdigs = append(sdigs, sd)
		odigs = append(odigs, digest(strings.Join(out, "\n")))
		if si == 0 {
			base = out
			continue
		}
		v.Stats.fault("tz-switch")
		for i := range out {
			if i < len(base) && out[i] != base[i] {
				ci, oi := e.opAt(i)
				op := &c.Clients[ci][oi]
				if sd != sdigs[0] && timeDependent(c.Programs[op.Prog].Src) && !hasTimeOpt(op) {
					// The two sub-runs did not follow the same schedule (a lazily built table or memo is cold
					// in the first and warm in the second, so the second meets fewer yield points): the clock
					// jumps of other clients fall elsewhere, and an evaluation that reads the clock may
					// legitimately see another instant. Only the clock oracle judges it.
					v.Stats.probe("zone-comparison-skipped-schedules-differ")
					continue
				}
				e.violate("zone-independence", "zone:"+classifyZoneDiff(c.Programs[op.Prog].Src, base[i], out[i]),
					fmt.Sprintf("client %d op %d program %q: outcome under process zone %s/%s = %s ; under %s/%s = %s",
						ci, oi, c.Programs[op.Prog].Src, subs[0].compile, subs[0].eval, short(base[i], 300), z.compile, z.eval, short(out[i], 300)))
				break
			}
		}
	}
	_ = setLocal("UTC")
	v.SchedDigest = digest(strings.Join(sdigs, ","))
	v.OutcomeDigest = digest(strings.Join(odigs, ","))
	return v
}

func hasTimeOpt(op *Op) bool {
	for _, o := range op.Opts {
		if o.Kind == "time" {
			return true
		}
	}
	return false
}

// classifyZoneDiff gives zone-dependence violations a stable signature.
func classifyZoneDiff(src, a, b string) string {
	if strings.Contains(a, "system.DateTime(") || strings.Contains(b, "system.DateTime(") {
		return "datetime"
	}
	if strings.Contains(a, "system.Date(") || strings.Contains(b, "system.Date(") {
		return "date"
	}
	return "other"
}

func (e *c04Exec) opAt(flat int) (int, int) {
	for ci := range e.c.Clients {
		if flat < len(e.c.Clients[ci]) {
			return ci, flat
		}
		flat -= len(e.c.Clients[ci])
	}
	return 0, 0
}

func (e *c04Exec) subRun(z zoneCfg) (out []string, sdig string, infra string) {
	c, v := e.c, e.v
	if err := setLocal(z.compile); err != nil {
		return nil, "", "zone: " + err.Error()
	}
	defer func() {
		if p := recover(); p != nil {
			infra = bubblePanic(p, &v.Stats)
		}
	}()
	runBubble(e.t, func(t *testing.T) {
		start := time.Now()
		time.Sleep(time.Duration(c.ClockMs) * time.Millisecond)
		v.Stats.SubRuns++
		in, err := buildInputs(c)
		if err != nil {
			infra = "inputs: " + err.Error()
			return
		}
		r := &runCtx{c: c, stats: &v.Stats, in: in}
		setRun(r)
		defer setRun(nil)
		defer func() {
			if n := int(r.foreign.Load()); n > 0 {
				v.Stats.probeN("library-goroutine-not-under-the-scheduler", n)
			}
		}()
		compileOptCache = nil
		if c.Knobs.ReuseOpts {
			compileOptCache = map[string]fhirpath.CompileOption{}
			var lists [][]EOpt
			for ci := range c.Clients {
				for oi := range c.Clients[ci] {
					lists = append(lists, c.Clients[ci][oi].Opts)
				}
			}
			in.prepareEvalOpts(lists...)
			v.Stats.probe("option-values-reused")
		}
		defer func() { compileOptCache = nil }()

		// --- compile history (root only) ---
		for hi := range c.History {
			h := compile(c.History[hi].Prog, &v.Stats)
			// whatever that Compile did - succeed or fail - the very next Compile starts from the
			// built-in functions only: an experimental function does not resolve without the option
			e.experimentalProbe(fmt.Sprintf("after history[%d] %q %+v", hi, c.History[hi].Prog.Src, c.History[hi].Prog.Opts))
			e.checkCompileModel(fmt.Sprintf("history[%d]", hi), h)
			e.checkOptionValueMemory(fmt.Sprintf("history[%d]", hi), h)
		}
		e.checkTables("after history")
		progs := make([]*compiled, len(c.Programs))
		for i := range c.Programs {
			progs[i] = compile(c.Programs[i], &v.Stats)
			e.checkCompileModel(fmt.Sprintf("program[%d]", i), progs[i])
			e.checkOptionValueMemory(fmt.Sprintf("program[%d]", i), progs[i])
		}
		if z.eval != z.compile {
			if err := setLocal(z.eval); err != nil {
				infra = "zone: " + err.Error()
				return
			}
		}

		// --- concurrent pass ---
		results := make([][]opResult, len(c.Clients))
		for ci := range c.Clients {
			results[ci] = make([]opResult, len(c.Clients[ci]))
		}
		var midDone []*compiled
		if c.Knobs.NoSched {
			for ci := range c.Clients {
				for oi := range c.Clients[ci] {
					op := &c.Clients[ci][oi]
					oc := newOpCtx(op.FailN)
					if err := r.solo(oc, func() { results[ci][oi] = execOp(op, oc, progs[op.Prog], in, nil) }); err != nil {
						infra = err.Error()
						return
					}
				}
			}
		} else {
			sc := newSched(c.tapeFor(), c.Knobs.SwitchThr, 6000)
			r.attach(sc)
			r.taskOps = make([]*opCtx, len(c.Clients))
			clientPanics := make([]string, len(c.Clients))
			for ci := range c.Clients {
				ci := ci
				sc.spawn(func(tk *task) {
					defer func() {
						if p := recover(); p != nil {
							clientPanics[ci] = fmt.Sprint(p)
						}
					}()
					for oi := range c.Clients[ci] {
						op := &c.Clients[ci][oi]
						sc.yield(ypOpBoundary, -1)
						oc := newOpCtx(op.FailN)
						r.setTaskOp(tk.id, oc)
						results[ci][oi] = execOp(op, oc, progs[op.Prog], in, nil)
						r.setTaskOp(tk.id, nil)
						sc.noteOpDone(tk)
					}
				})
			}
			mid := 0
			err := sc.run(func(step int) {
				if c.Knobs.GCEvery > 0 && step%c.Knobs.GCEvery == 0 {
					runtime.GC()
					v.Stats.fault("gc")
				}
				if c.Knobs.MidCompile > 0 && len(c.MidProgs) > 0 && step%c.Knobs.MidCompile == 0 && mid < 4*len(c.MidProgs) {
					m := compile(c.MidProgs[mid%len(c.MidProgs)], &v.Stats)
					midDone = append(midDone, m)
					mid++
					v.Stats.fault("compile-midflight")
					if sc.anyMidOp() {
						v.Stats.probe("compile-while-client-mid-op")
					}
				}
			})
			r.detach(sc)
			if err != nil {
				infra = err.Error()
				return
			}
			for ci, p := range clientPanics {
				if p != "" {
					infra = fmt.Sprintf("client %d harness panic: %s", ci, p)
					return
				}
			}
			sdig = fmt.Sprintf("%x", sc.sdig)
			v.Stats.Yields += sc.steps
			v.Stats.Switches += sc.switches
			v.Stats.Faults = addN(v.Stats.Faults, "preempt", sc.switches)
			v.Stats.Faults = addN(v.Stats.Faults, "stall", sc.stalls)
			v.Stats.probeN("two-clients-inside-same-node", sc.overlapNode)
			v.Stats.probeN("switch-at-node", sc.ypSwitched[ypNode])
			v.Stats.probeN("switch-in-callback", sc.ypSwitched[ypCallback])
			v.Stats.probeN("switch-at-global-state", sc.ypSwitched[ypGlobal])
			if sc.overrun {
				v.Stats.probe("step-bound-hit")
			}
		}
		for _, m := range midDone {
			e.checkCompileModel("mid-flight", m)
		}

		compileOptCache = nil // the isolated reference and the probes below use option values of their own
		// --- clock jump between the passes ---
		time.Sleep(time.Duration(c.Knobs.GapDays) * 24 * time.Hour)

		// --- isolated reference pass: fresh compile, fresh inputs, clock pinned to the entry instant ---
		for ci := range c.Clients {
			for oi := range c.Clients[ci] {
				op := &c.Clients[ci][oi]
				got := results[ci][oi]
				v.Stats.Ops++
				v.Stats.NodeSteps += got.Nodes
				if got.Fired {
					v.Stats.fault("node-error")
				}
				if got.Ticks > 0 {
					v.Stats.Faults = addN(v.Stats.Faults, "clock-jump", got.Ticks)
				}
				out = append(out, got.Outcome)
				if strings.HasPrefix(got.Outcome, "harness-error") {
					infra = got.Outcome
					return
				}
				if len(got.Nested) > 0 {
					// a user function evaluated the same expression on the same input with the same options
					// from inside the evaluation (bounded recursion; the function answers its input): every
					// nested evaluation computes what the outermost one computes
					v.Stats.probeN("recursive-evaluation-from-callback", len(got.Nested))
					if !got.Fired && (!timeDependent(c.Programs[op.Prog].Src) || got.HasTime) && got.Ticks == 0 {
						for k, n := range got.Nested {
							if n != got.finalByValue {
								e.violate("isolation-reference", "nested-evaluation-differs", fmt.Sprintf("client %d op %d (%s %q): nested evaluation %d of the same expression on the same input (started by a user function, same goroutine) gives %s, the evaluation itself %s",
									ci, oi, op.Kind, c.Programs[op.Prog].Src, k, short(n, 300), short(got.finalByValue, 300)))
								break
							}
						}
					}
				}
				if strings.Contains(got.Probes, "reenter(") {
					v.Stats.probe("nested-evaluation-from-callback")
				}
				if got.Repeat != "" {
					e.violate("result-stability", "repeat-after-caller-edit", fmt.Sprintf("client %d op %d (%s %q): %s", ci, oi, op.Kind, c.Programs[op.Prog].Src, got.Repeat))
				}
				if got.OptsTail != "" {
					e.violate("option-isolation", "caller-evaluate-options-overwritten", fmt.Sprintf("client %d op %d (%s %q): %s - a later call with that slice, or another goroutine using it, is affected", ci, oi, op.Kind, c.Programs[op.Prog].Src, got.OptsTail))
				}
				v.Stats.probe("evaluate-option-tail-checked")
				if got.Stale != "" {
					e.violate("input-currency", "input-change-ignored", fmt.Sprintf("client %d op %d (%s %q): %s", ci, oi, op.Kind, c.Programs[op.Prog].Src, got.Stale))
				}
				// a result belongs to the caller once it is returned: later evaluations must not rewrite it
				if got.raw != nil {
					v.Stats.probe("result-stability-checked")
					if now := canonCollection(in.nodeIdx, got.raw); now != got.Outcome {
						e.violate("result-stability", "result-changed-after-return", fmt.Sprintf("client %d op %d (%s %q): the collection Evaluate returned was %s when it returned and is %s after the other evaluations of the run",
							ci, oi, op.Kind, c.Programs[op.Prog].Src, short(got.Outcome, 300), short(now, 300)))
					}
				}
				if *fNoRef {
					continue
				}
				fresh := compile(c.Programs[op.Prog], nil)
				// node kinds come from the H1 seam; a Compile that legitimately reuses an earlier
				// parse never reaches the seam, so kinds are compared only when both compiles did
				kindsDiffer := len(fresh.nodes) > 0 && len(progs[op.Prog].nodes) > 0 && fresh.kinds() != progs[op.Prog].kinds()
				if fresh.ok() != progs[op.Prog].ok() || kindsDiffer {
					e.violate("recompile-same", "recompile", fmt.Sprintf("program %q compiled ok=%v kinds=%s first, ok=%v kinds=%s later in the same history",
						c.Programs[op.Prog].Src, progs[op.Prog].ok(), progs[op.Prog].kinds(), fresh.ok(), fresh.kinds()))
					continue
				}
				in2, err := buildInputs(c)
				if err != nil {
					infra = "inputs: " + err.Error()
					return
				}
				oc := newOpCtx(op.FailN)
				// The isolated execution is pinned to the instant the shared execution actually used.
				// The statement asks for ONE instant per evaluation, not for the instant of entry: an
				// implementation may read the clock anywhere between entry and return.
				// How the instant is kept is the library's business: the context field the harness can
				// see (Context.Now) is used when it holds a value; when it does not (e.g. an
				// implementation that reads the clock lazily into a field of its own) the instant can only
				// be pinned if the clock did not move during the call.
				entry := got.Entry
				pinned := true
				if !got.HasTime {
					switch {
					case got.NowSet && !got.CtxNow.IsZero():
						if got.CtxNow.Before(got.Entry) || got.CtxNow.After(got.Exit) {
							e.violate("clock", "now-outside-evaluation", fmt.Sprintf("client %d op %d (%s %q): the evaluation used the instant %s, but the clock showed %s when Evaluate was entered and %s when it returned",
								ci, oi, op.Kind, c.Programs[op.Prog].Src, got.CtxNow.Format(time.RFC3339Nano), got.Entry.Format(time.RFC3339Nano), got.Exit.Format(time.RFC3339Nano)))
						}
						entry = got.CtxNow
					case !got.Entry.Equal(got.Exit):
						pinned = false
					}
				}
				if op.Kind == "evalmut" && !got.HasTime && !got.Entry.Equal(got.Exit) {
					pinned = false // several evaluations in one operation, each at its own instant
				}
				if !pinned && timeDependent(c.Programs[op.Prog].Src) {
					v.Stats.probe("time-dependent-op-not-pinned")
					if msg := clockOracle(op, c.Programs[op.Prog].Src, &got); msg != "" {
						e.violate("clock", "now-value", fmt.Sprintf("client %d op %d (%s %q): %s", ci, oi, op.Kind, c.Programs[op.Prog].Src, msg))
					}
					continue
				}
				// (when the library runs goroutines of its own - instrumented build - the isolated
				// execution follows the reference schedule: see runCtx.solo)
				var ref opResult
				if err := r.solo(oc, func() { ref = execOp(op, oc, fresh, in2, &entry) }); err != nil {
					infra = err.Error()
					return
				}
				src := c.Programs[op.Prog].Src
				where := fmt.Sprintf("client %d op %d (%s %q)", ci, oi, op.Kind, src)
				// The isolated execution again, on inputs and an expression of its own: with nothing
				// shared, nothing interleaved and the clock pinned, a different outcome can only come from
				// something outside (text, options, inputs) - map iteration order, a random source, an
				// address, how much the process has done before. (On replay it is repeated more often: a
				// source of randomness does not replay exactly, so the replay makes near-certain of it.)
				reps := 1
				if *fReplay != "" || *fMinimise != "" {
					reps = 6
				}
				unstable := false
				for k := 0; k < reps && !unstable; k++ {
					in3, err := buildInputs(c)
					if err != nil {
						infra = "inputs: " + err.Error()
						return
					}
					oc3 := newOpCtx(op.FailN)
					var again opResult
					fresh3 := compile(c.Programs[op.Prog], nil)
					if err := r.solo(oc3, func() { again = execOp(op, oc3, fresh3, in3, &entry) }); err != nil {
						infra = err.Error()
						return
					}
					v.Stats.probe("isolated-execution-repeated")
					if again.Outcome != ref.Outcome {
						unstable = true
						e.violate("isolation-reference", "unstable-in-isolation:"+outcomeClass(again.Outcome, ref.Outcome),
							fmt.Sprintf("%s: two isolated executions (fresh compile, fresh inputs, same pinned instant %s, nothing shared) give %s and %s", where, entry.Format(time.RFC3339Nano), short(ref.Outcome, 400), short(again.Outcome, 400)))
					}
				}
				if unstable {
					continue
				}
				if got.Outcome != ref.Outcome {
					e.violate("isolation-reference", "outcome:"+outcomeClass(got.Outcome, ref.Outcome),
						fmt.Sprintf("%s: shared/interleaved outcome %s differs from isolated outcome %s (entry instant %s)", where, short(got.Outcome, 400), short(ref.Outcome, 400), entry.Format(time.RFC3339Nano)))
				} else {
					// Same outcome. How the library got there is its own business (a result it may
					// legitimately have kept, a call it may have coalesced with an identical one): a
					// different node trace or fewer callback invocations are recorded, not reported.
					// What a user function was GIVEN is user-visible: every observation a callback made
					// in the shared execution must be one it also makes in the isolated execution.
					if got.Trace != ref.Trace || got.Nodes != ref.Nodes {
						v.Stats.probe("same-outcome-different-node-trace")
					}
					if got.Probes != ref.Probes {
						seen := map[string]bool{}
						for _, o := range ref.probeList {
							seen[o] = true
						}
						for _, o := range got.probeList {
							if !seen[o] {
								e.violate("isolation-reference", "probes", fmt.Sprintf("%s: a user function was called with %s, which it never receives in the isolated execution (there: %s)", where, short(o, 300), short(ref.Probes, 300)))
								break
							}
						}
					}
				}
				if got.NowBad {
					e.violate("clock", "now-not-one-instant", where+": the evaluation context carried more than one value of Now across its node entries")
				}
				if msg := clockOracle(op, src, &got); msg != "" {
					e.violate("clock", "now-value", where+": "+msg)
				}
				if got.Ticks > 0 && timeDependent(src) {
					v.Stats.probe("tick-inside-time-dependent-evaluation")
				}
			}
		}
		e.checkTables("end of run")
		e.leakProbes()
		v.Stats.SimTimeMs += time.Since(start).Milliseconds()
	})
	return out, sdig, infra
}

func addN(m map[string]int, k string, n int) map[string]int {
	if n == 0 {
		return m
	}
	if m == nil {
		m = map[string]int{}
	}
	m[k] += n
	return m
}

func timeDependent(src string) bool {
	return strings.Contains(src, "now()") || strings.Contains(src, "today()") || strings.Contains(src, "timeOfDay()")
}

func outcomeClass(a, b string) string {
	k := func(s string) string {
		switch {
		case strings.HasPrefix(s, "ok"):
			return "ok"
		case strings.HasPrefix(s, "err("):
			return "err"
		case strings.HasPrefix(s, "panic("):
			return "panic"
		case strings.HasPrefix(s, "patched"):
			return "patched"
		case strings.HasPrefix(s, "first{"):
			return "evalmut"
		}
		if i := strings.IndexByte(s, '('); i > 0 {
			return s[:i]
		}
		return "other"
	}
	return k(a) + "/" + k(b)
}

// clockOracle is the independent (non-differential) check of the three time
// functions: it computes the expected text from the entry instant with Go's own
// time formatting and compares instants, dates and times of day.
// mustBeTrue: programs whose value is fixed by "one instant per evaluation", whatever that instant is.
var mustBeTrue = map[string]bool{
	"now().t1() = now()": true, "today().t1().select(today()) = today()": true, "timeOfDay().t1().select(timeOfDay()).y() = timeOfDay()": true,
	"now() = now()": true, "today() = today()": true, "timeOfDay() = timeOfDay()": true,
}

func clockOracle(op *Op, src string, got *opResult) string {
	if op.Kind != "eval" || op.FailN != 0 {
		return ""
	}
	s := strings.TrimSpace(src)
	if mustBeTrue[s] {
		if got.Outcome != "ok[system.Boolean(true);]" {
			return "the time functions of one evaluation must agree, but the outcome is " + short(got.Outcome, 200)
		}
		return ""
	}
	if s != "now()" && s != "today()" && s != "timeOfDay()" {
		return ""
	}
	// the instant: the override if given, else what the context carried, else anything between entry and return
	lo, hi := got.Entry, got.Exit
	if got.NowSet && !got.CtxNow.IsZero() {
		lo, hi = got.CtxNow, got.CtxNow
	}
	for _, o := range op.Opts {
		if o.Kind == "time" {
			want := time.UnixMilli(o.TimeMs).UTC()
			if o.OffMin != 0 {
				want = want.In(time.FixedZone("", o.OffMin*60))
			}
			lo, hi = want, want
		}
	}
	o := got.Outcome
	if !strings.HasPrefix(o, "ok[") {
		return "expected a value, got " + short(o, 200)
	}
	i, j := strings.IndexByte(o, '('), strings.LastIndexByte(o, ')')
	if i < 0 || j < i {
		return "unparseable outcome " + short(o, 200)
	}
	text := o[i+1 : j]
	window := fmt.Sprintf("between %s and %s", lo.Format(time.RFC3339Nano), hi.Format(time.RFC3339Nano))
	switch s {
	case "now()":
		t, err := time.Parse("2006-01-02T15:04:05.000Z07:00", text)
		if err != nil {
			return "now() rendered as " + text + ": " + err.Error()
		}
		if t.Before(lo.Truncate(time.Millisecond)) || t.After(hi) {
			return fmt.Sprintf("now() = %s but the evaluation's instant lies %s", text, window)
		}
	case "today()":
		if text < lo.Format("2006-01-02") || text > hi.In(lo.Location()).Format("2006-01-02") {
			return fmt.Sprintf("today() = %s but the evaluation's instant lies %s", text, window)
		}
	case "timeOfDay()":
		if lo.Format("2006-01-02") == hi.In(lo.Location()).Format("2006-01-02") && (text < lo.Format("15:04:05.000") || text > hi.In(lo.Location()).Format("15:04:05.000")) {
			return fmt.Sprintf("timeOfDay() = %s but the evaluation's instant lies %s", text, window)
		}
	}
	return ""
}

func (e *c04Exec) checkCompileModel(where string, p *compiled) {
	if p.panic != "" {
		return // totality is C01's subject
	}
	if !p.compileTailIntact() {
		e.violate("compile-isolation", "caller-options-overwritten", fmt.Sprintf("%s: Compile(%q) wrote into the caller's option slice behind the options it was given (a later Compile with that slice is affected)", where, p.spec.Src))
	}
	if modelOptsFail(p.spec.Opts, &processTables) && p.err == nil {
		e.violate("compile-isolation", "option-accepted", fmt.Sprintf("%s: Compile(%q) succeeded although its options register an existing or built-in function name: %+v", where, p.spec.Src, p.spec.Opts))
	}
}

func (e *c04Exec) checkTables(when string) {
	now := snapTables()
	if now.baseFP != processTables.baseFP {
		e.violate("compile-isolation", "base-table-changed", "the built-in function table changed ("+when+"): "+diffNames(processTables.base, now.base))
	}
	if now.expFP != processTables.expFP {
		e.violate("compile-isolation", "experimental-table-changed", "the experimental function table changed ("+when+"): "+diffNames(processTables.exp, now.exp))
	}
}

func diffNames(a, b map[string]bool) string {
	var d []string
	for k := range b {
		if !a[k] {
			d = append(d, "+"+k)
		}
	}
	for k := range a {
		if !b[k] {
			d = append(d, "-"+k)
		}
	}
	sort.Strings(d)
	if len(d) == 0 {
		return "same names, different arity or implementation"
	}
	return strings.Join(d, " ")
}

// checkOptionValueMemory: when option values are reused between Compile calls and a Compile
// fails, the same source with freshly built option values must fail too - an option value must
// not remember what an earlier Compile did with it.
func (e *c04Exec) checkOptionValueMemory(where string, p *compiled) {
	if compileOptCache == nil || p.err == nil || p.panic != "" {
		return
	}
	saved := compileOptCache
	compileOptCache = nil
	fresh := compile(p.spec, nil)
	compileOptCache = saved
	e.v.Stats.probe("option-value-memory-checked")
	if fresh.err == nil && fresh.panic == "" {
		e.violate("compile-isolation", "option-value-remembers", fmt.Sprintf("%s: Compile(%q, %+v) fails with option values that earlier Compile calls have seen (%v) but succeeds with freshly built, identical options", where, p.spec.Src, p.spec.Opts, p.err))
	}
}

// experimentalProbe: a Compile without options must not resolve an experimental-only function.
func (e *c04Exec) experimentalProbe(when string) {
	saved := compileOptCache
	compileOptCache = nil
	defer func() { compileOptCache = saved }()
	for n := range processTables.exp {
		if processTables.base[n] {
			continue
		}
		var err error
		func() {
			defer func() {
				if p := recover(); p != nil {
					err = fmt.Errorf("panic: %v", p)
				}
			}()
			_, err = fhirpath.Compile(n + "()")
		}()
		if err == nil {
			e.violate("compile-isolation", "leak", fmt.Sprintf("%s: the experimental function %q resolves in a Compile without WithExperimentalFuncs", when, n))
		}
		e.v.Stats.probe("experimental-probe")
	}
}

// leakProbes: a function registered through an option must exist only in the
// expression being compiled.
func (e *c04Exec) leakProbes() {
	seen := map[string]bool{}
	var names []string
	add := func(opts []COpt) {
		for _, o := range opts {
			if o.Kind == "fn" && !seen[o.Name] {
				seen[o.Name] = true
				names = append(names, o.Name)
			}
		}
	}
	for _, p := range e.c.Programs {
		add(p.Opts)
	}
	for _, h := range e.c.History {
		add(h.Prog.Opts)
	}
	for _, p := range e.c.MidProgs {
		add(p.Opts)
	}
	for _, n := range names {
		if processTables.base[n] {
			continue
		}
		if _, err := fhirpath.Compile(n + "()"); err == nil {
			e.violate("compile-isolation", "leak", fmt.Sprintf("function %q, registered through AddFunction for one expression, resolves in a later Compile without that option", n))
		}
		if !processTables.exp[n] {
			if _, err := fhirpath.Compile(n+"()", compopts.WithExperimentalFuncs()); err == nil {
				e.violate("compile-isolation", "leak", fmt.Sprintf("function %q, registered through AddFunction for one expression, resolves in a later Compile(WithExperimentalFuncs) without that option", n))
			}
		}
		e.v.Stats.probe("leak-probe")
	}
}
