package verifsim

// Mode C03: evaluation never mutates its inputs. The inputs are exactly the state
// shared between caller goroutines, "successfully or not" quantifies over where an
// evaluation is cut short, and the failing shapes are aliasing configurations between
// arguments. Clients evaluate shared expressions on shared resources and shared
// environment-variable values under the scheduler, with abort points injected at every
// node ordinal; the snapshot oracle runs at every operation boundary and at the end.

import (
	"bytes"
	"fmt"
	"reflect"
	"strings"
	"testing"
	"time"
	"unsafe"

	"github.com/verily-src/fhirpath-go/fhirpath/system"
	"github.com/verily-src/fhirpath-go/internal/fhir"
	"google.golang.org/protobuf/proto"
	"google.golang.org/protobuf/reflect/protoreflect"
	"google.golang.org/protobuf/types/known/anypb"
)

type varSnap struct {
	isColl   bool
	ptr      unsafe.Pointer
	len, cap int
	items    []any // the items by identity (len entries) followed by what sits in [len:cap]
	text     string
}

type inputSnap struct {
	resBytes [][]byte
	resPres  []string
	vars     []varSnap
}

func sameItem(a, b any) bool {
	pa, ok1 := a.(proto.Message)
	pb, ok2 := b.(proto.Message)
	if ok1 || ok2 {
		return ok1 && ok2 && pa == pb
	}
	sa, ok1 := a.(*sentinelT)
	sb, ok2 := b.(*sentinelT)
	if ok1 || ok2 {
		return ok1 && ok2 && sa == sb
	}
	return fmt.Sprintf("%T|%v", a, a) == fmt.Sprintf("%T|%v", b, b)
}

func snapVar(v any) varSnap {
	c, ok := v.(system.Collection)
	if !ok {
		return varSnap{text: fmt.Sprintf("%T|%v", v, v)}
	}
	s := varSnap{isColl: true, len: len(c), cap: cap(c)}
	if cap(c) > 0 {
		s.ptr = unsafe.Pointer(unsafe.SliceData(c))
	}
	full := c[:cap(c)]
	s.items = append([]any(nil), full...)
	return s
}

func snapInputs(in *inputs) *inputSnap {
	s := &inputSnap{}
	for _, r := range in.resources {
		s.resBytes = append(s.resBytes, msgBytes(r))
		s.resPres = append(s.resPres, presence(r))
	}
	for _, v := range in.vars {
		s.vars = append(s.vars, snapVar(v))
	}
	return s
}

// compare returns a description of the first difference between the inputs and their snapshot.
func (s *inputSnap) compare(in *inputs, before []proto.Message) (class, detail string) {
	for i, r := range in.resources {
		if !bytes.Equal(msgBytes(r), s.resBytes[i]) {
			return "resource-bytes", fmt.Sprintf("input resource %d (%s) changed: %s", i, r.ProtoReflect().Descriptor().Name(), diffSummary(before[i], r))
		}
		if presence(r) != s.resPres[i] {
			return "resource-presence", fmt.Sprintf("input resource %d (%s): the set of populated fields changed (a field or empty sub-message was materialised)", i, r.ProtoReflect().Descriptor().Name())
		}
	}
	for i, v := range in.vars {
		now := snapVar(v)
		was := s.vars[i]
		if !was.isColl {
			if now.text != was.text {
				return "env-value", fmt.Sprintf("environment variable value %d changed from %s to %s", i, short(was.text, 120), short(now.text, 120))
			}
			continue
		}
		if now.ptr != was.ptr || now.len != was.len || now.cap != was.cap {
			return "env-slice-header", fmt.Sprintf("environment collection %d: slice header changed (len %d cap %d -> len %d cap %d)", i, was.len, was.cap, now.len, now.cap)
		}
		for j := range was.items {
			if !sameItem(now.items[j], was.items[j]) {
				where := "item"
				cl := "env-items"
				if j >= was.len {
					where, cl = "spare-capacity slot", "env-backing-store"
				}
				return cl, fmt.Sprintf("environment collection %d (len %d cap %d): %s %d of the caller's backing array was overwritten: %T(%v) -> %T(%v)", i, was.len, was.cap, where, j, was.items[j], was.items[j], now.items[j], now.items[j])
			}
		}
	}
	return "", ""
}

// ---------------------------------------------------------------------------
// Reflective fingerprint of a compiled expression's node graph.

func hashGraph(nodes []*simNode) string {
	var b strings.Builder
	for _, n := range nodes {
		fmt.Fprintf(&b, "#%d:%s{", n.id, n.kind)
		hashValue(&b, reflect.ValueOf(n.inner), 0)
		b.WriteString("}")
	}
	return digest(b.String())
}

func hashValue(b *strings.Builder, v reflect.Value, depth int) {
	if depth > 6 || !v.IsValid() {
		b.WriteString("_")
		return
	}
	switch v.Kind() {
	case reflect.Pointer, reflect.Interface:
		if v.IsNil() {
			b.WriteString("nil")
			return
		}
		if v.Kind() == reflect.Pointer && v.Type() == reflect.TypeOf((*simNode)(nil)) {
			fmt.Fprintf(b, "node%d", (*simNode)(v.UnsafePointer()).id)
			return
		}
		if v.Kind() == reflect.Pointer && v.Type().Implements(reflect.TypeOf((*proto.Message)(nil)).Elem()) {
			b.WriteString("proto")
			return
		}
		if v.Kind() == reflect.Interface && v.CanInterface() {
			if sv, ok := v.Interface().(system.Any); ok {
				fmt.Fprintf(b, "%T(%v)", sv, sv)
				return
			}
		}
		hashValue(b, v.Elem(), depth+1)
	case reflect.Struct:
		t := v.Type()
		fmt.Fprintf(b, "%s(", t.Name())
		if t.PkgPath() == "math/big" || t.PkgPath() == "time" || t.PkgPath() == "regexp" || t.PkgPath() == "sync" {
			// opaque value types: render through String() when addressable, else by kind only
			if v.CanInterface() {
				fmt.Fprintf(b, "%v", v.Interface())
			}
			b.WriteString(")")
			return
		}
		for i := 0; i < v.NumField(); i++ {
			b.WriteString(t.Field(i).Name)
			b.WriteByte('=')
			hashValue(b, v.Field(i), depth+1)
			b.WriteByte(',')
		}
		b.WriteString(")")
	case reflect.Slice, reflect.Array:
		fmt.Fprintf(b, "[%d:", v.Len())
		for i := 0; i < v.Len() && i < 64; i++ {
			hashValue(b, v.Index(i), depth+1)
			b.WriteByte(',')
		}
		b.WriteString("]")
	case reflect.Map:
		fmt.Fprintf(b, "map%d", v.Len())
	case reflect.Func:
		if v.IsNil() {
			b.WriteString("func-nil")
		} else {
			fmt.Fprintf(b, "func@%x", v.Pointer())
		}
	case reflect.String:
		fmt.Fprintf(b, "%q", v.String())
	case reflect.Bool:
		fmt.Fprintf(b, "%v", v.Bool())
	case reflect.Int, reflect.Int8, reflect.Int16, reflect.Int32, reflect.Int64:
		fmt.Fprintf(b, "%d", v.Int())
	case reflect.Uint, reflect.Uint8, reflect.Uint16, reflect.Uint32, reflect.Uint64, reflect.Uintptr:
		fmt.Fprintf(b, "%d", v.Uint())
	case reflect.Float32, reflect.Float64:
		fmt.Fprintf(b, "%v", v.Float())
	default:
		b.WriteString(v.Kind().String())
	}
}

// ---------------------------------------------------------------------------

type c03Exec struct {
	c *Case
	v *Verdict
	// value index of everything inside contained resources: copies of these are legitimate
	containedVals map[string]bool
	mainVals      map[string]bool
}

func (e *c03Exec) violate(oracle, class, detail string) {
	e.v.Violations = append(e.v.Violations, Violation{Property: "C03", Oracle: oracle, Class: class, Detail: short(detail, 1800)})
}

func valKey(m proto.Message) string {
	return string(m.ProtoReflect().Descriptor().FullName()) + "|" + string(msgBytes(m))
}

func (e *c03Exec) indexValues(in *inputs) {
	e.containedVals, e.mainVals = map[string]bool{}, map[string]bool{}
	var walk func(m protoreflect.Message, inContained bool)
	walk = func(m protoreflect.Message, inContained bool) {
		walkMessages(m, func(x protoreflect.Message) {
			if a, ok := x.Interface().(*anypb.Any); ok {
				cr := newMessage(findDesc("ContainedResource"))
				if a.UnmarshalTo(cr.Interface()) == nil {
					walk(cr, true) // contained resources may nest
				}
				return
			}
			if inContained {
				e.containedVals[valKey(x.Interface())] = true
			} else {
				e.mainVals[valKey(x.Interface())] = true
			}
		})
	}
	for _, r := range in.resources {
		walk(r.ProtoReflect(), false)
	}
}

// checkResult: FHIR elements in a result are the input's own nodes, never copies.
func (e *c03Exec) checkResult(in *inputs, where string, res system.Collection) {
	for i, it := range res {
		m, ok := it.(proto.Message)
		if !ok {
			continue
		}
		if _, isNode := in.nodeIdx[m]; isNode {
			e.v.Stats.probe("result-node-identity-checked")
			continue
		}
		if in.callerMsgs[m] {
			continue // the caller's own object, handed in through an environment value
		}
		d := m.ProtoReflect().Descriptor()
		// a message the library made for this result (a reference string, a copy of a contained
		// resource) must not reach into the input: whoever edits "its" result would edit the input
		shared := ""
		walkMessages(m.ProtoReflect(), func(x protoreflect.Message) {
			if x.Interface() == m || shared != "" {
				return
			}
			if _, isNode := in.nodeIdx[x.Interface()]; isNode {
				shared = string(x.Descriptor().Name())
			}
		})
		e.v.Stats.probe("fresh-result-checked")
		if shared != "" {
			e.violate("result-identity", "fresh-result-shares-input", fmt.Sprintf("%s: result item %d (%s) is not an element of the input, but it contains the input's own %s element: editing the result edits the input", where, i, d.Name(), shared))
			return
		}
		if d.FullName() == "google.fhir.r4.core.String" {
			continue // reference strings are synthesised (documented)
		}
		k := valKey(m)
		if e.containedVals[k] {
			continue // contained resources are unpacked from Any per evaluation (documented)
		}
		if e.mainVals[k] && proto.Size(m) > 0 {
			e.violate("result-identity", "copy-instead-of-node", fmt.Sprintf("%s: result item %d (%s) equals an element of the input but is not that element: the result holds a copy, not the input's own node", where, i, d.Name()))
			return
		}
	}
}

func execC03(t *testing.T, c *Case) (v *Verdict) {
	v = &Verdict{}
	v.Stats.Runs = 1
	e := &c03Exec{c: c, v: v}
	defer func() {
		if p := recover(); p != nil {
			v.Infra = bubblePanic(p, &v.Stats)
		}
	}()
	var sdig string
	var outs []string
	runBubble(t, func(t *testing.T) {
		start := time.Now()
		time.Sleep(time.Duration(c.ClockMs) * time.Millisecond)
		v.Stats.SubRuns++
		in, err := buildInputs(c)
		if err != nil {
			v.Infra = "inputs: " + err.Error()
			return
		}
		r := &runCtx{c: c, stats: &v.Stats, in: in}
		setRun(r)
		defer setRun(nil)
		e.indexValues(in)
		snap := snapInputs(in)
		var before []proto.Message
		for _, m := range in.resources {
			before = append(before, proto.Clone(m))
		}
		for _, vs := range c.Vars {
			if vs.Kind == "coll" && vs.Spare > 0 {
				v.Stats.probe("spare-capacity-var")
			}
			if vs.Kind == "coll" && len(vs.Items) >= 256 {
				v.Stats.probe("big-collection-var")
			}
			if vs.Kind == "sub" || vs.Kind == "res" || vs.Kind == "node" {
				v.Stats.probe("alias-config")
			}
		}
		if len(c.Vars) > 0 {
			v.Stats.fault("alias")
		}

		progs := make([]*compiled, len(c.Programs))
		graphs := make([]string, len(c.Programs))
		for i := range c.Programs {
			progs[i] = compile(c.Programs[i], &v.Stats)
			graphs[i] = hashGraph(progs[i].nodes)
		}

		results := make([][]string, len(c.Clients))
		check := func(where string) bool {
			v.Stats.probe("snapshot-checks")
			if cl, d := snap.compare(in, before); cl != "" {
				e.violate("input-snapshot", cl, where+": "+d)
				return false
			}
			return true
		}
		runOp := func(ci, oi int, oc *opCtx) {
			op := &c.Clients[ci][oi]
			p := progs[op.Prog]
			where := fmt.Sprintf("client %d op %d (%s %q, fail@%d, vars %s)", ci, oi, op.Kind, c.Programs[op.Prog].Src, op.FailN, optNames(op.Opts))
			out := "uncompiled"
			if p.ok() && p.fp != nil {
				opts, _, err := in.buildEvalOpts(op.Opts, nil)
				if err != nil {
					v.Infra = err.Error()
					return
				}
				func() {
					defer func() {
						if pv := recover(); pv != nil {
							out = "panic(" + maskPtr(fmt.Sprint(pv)) + ")"
						}
					}()
					inputs := pickResources(op, in.resources)
					switch op.Kind {
					case "bool":
						b, err := p.fp.EvaluateAsBool(inputs, opts...)
						out = fmt.Sprintf("bool(%v,%v)", b, err != nil)
					case "string":
						x, err := p.fp.EvaluateAsString(inputs, opts...)
						out = fmt.Sprintf("string(%q,%v)", x, err != nil)
					case "int":
						x, err := p.fp.EvaluateAsInt32(inputs, opts...)
						out = fmt.Sprintf("int(%d,%v)", x, err != nil)
					default:
						res, err := p.fp.Evaluate(inputs, opts...)
						if err != nil {
							out = canonErr(err)
						} else {
							out = canonCollection(in.nodeIdx, res)
							e.checkResult(in, where, res)
						}
					}
				}()
			}
			v.Stats.Ops++
			v.Stats.NodeSteps += oc.nodes
			if oc.failFired {
				v.Stats.fault("node-error")
			}
			if op.FailN < 0 && p.ok() && p.fp != nil {
				// abort-point enumeration: the evaluation above entered n nodes; cut it short at each of them
				n := oc.nodes
				if n > 64 {
					n = 64
				}
				opts, _, _ := in.buildEvalOpts(op.Opts, nil)
				for k := 1; k <= n && len(v.Violations) == 0; k++ {
					oc.nodes, oc.failAt, oc.failFired = 0, k, false
					func() {
						defer func() { _ = recover() }()
						_, _ = p.fp.Evaluate(pickResources(op, in.resources), opts...)
					}()
					if oc.failFired {
						v.Stats.fault("node-error")
						v.Stats.probe("abort-enumerated")
					}
					v.Stats.NodeSteps += oc.nodes
					check(fmt.Sprintf("%s aborted at node entry %d of %d", where, k, n))
				}
				oc.failAt = 0
			}
			if strings.HasPrefix(out, "err(") && oc.cbCalls > 0 && !oc.failFired {
				v.Stats.fault("callback-error")
			}
			results[ci] = append(results[ci], out)
			check(where)
		}
		if c.Knobs.NoSched || len(c.Clients) == 1 {
			for ci := range c.Clients {
				for oi := range c.Clients[ci] {
					oc := newOpCtx(c.Clients[ci][oi].FailN)
					r.setRootOp(oc)
					runOp(ci, oi, oc)
					if len(v.Violations) > 0 || v.Infra != "" {
						break
					}
				}
			}
			r.setRootOp(nil)
		} else {
			sc := newSched(c.Tape, c.Knobs.SwitchThr, 8000)
			r.attach(sc)
			r.taskOps = make([]*opCtx, len(c.Clients))
			panics := make([]string, len(c.Clients))
			for ci := range c.Clients {
				ci := ci
				sc.spawn(func(tk *task) {
					defer func() {
						if p := recover(); p != nil {
							panics[ci] = fmt.Sprint(p)
						}
					}()
					for oi := range c.Clients[ci] {
						sc.yield(ypOpBoundary, -1)
						oc := newOpCtx(c.Clients[ci][oi].FailN)
						r.setTaskOp(tk.id, oc)
						runOp(ci, oi, oc)
						r.setTaskOp(tk.id, nil)
						sc.noteOpDone(tk)
					}
				})
			}
			if err := sc.run(nil); err != nil {
				v.Infra = err.Error()
				return
			}
			r.detach(sc)
			for ci, p := range panics {
				if p != "" {
					v.Infra = fmt.Sprintf("client %d harness panic: %s", ci, p)
					return
				}
			}
			sdig = fmt.Sprintf("%x", sc.sdig)
			v.Stats.Yields += sc.steps
			v.Stats.Switches += sc.switches
			v.Stats.Faults = addN(v.Stats.Faults, "preempt", sc.switches)
		}
		if len(v.Violations) == 0 {
			check("end of run")
		}
		for i := range progs {
			v.Stats.probe("expression-graph-checked")
			if g := hashGraph(progs[i].nodes); g == graphs[i] || !progs[i].ok() || progs[i].fp == nil {
				continue
			}
			// Fields of the compiled nodes changed. "Unchanged" is read observably: a value filled in
			// lazily (under a sync.Once, say) that never alters behaviour is not a violation - so the
			// used expression is compared, operation by operation on fresh inputs, with a fresh compile.
			v.Stats.probe("expression-graph-fields-changed")
			fresh := compile(c.Programs[i], nil)
			differs := ""
			for ci := range c.Clients {
				for oi := range c.Clients[ci] {
					op := &c.Clients[ci][oi]
					if op.Prog != i || differs != "" {
						continue
					}
					run := func(p *compiled) string {
						in2, err := buildInputs(c)
						if err != nil || !p.ok() || p.fp == nil {
							return "unavailable"
						}
						oc := newOpCtx(0)
						r.setRootOp(oc)
						defer r.setRootOp(nil)
						pin := time.Date(2020, 3, 7, 12, 0, 0, 0, time.UTC) // both executions see the same instant
						opts, _, _ := in2.buildEvalOpts(op.Opts, &pin)
						out := ""
						func() {
							defer func() {
								if pv := recover(); pv != nil {
									out = "panic(" + maskPtr(fmt.Sprint(pv)) + ")"
								}
							}()
							res, err := p.fp.Evaluate(pickResources(op, in2.resources), opts...)
							if err != nil {
								out = canonErr(err)
							} else {
								out = canonCollection(in2.nodeIdx, res)
							}
						}()
						return fmt.Sprintf("%s/%d", out, oc.nodes)
					}
					if a, b := run(progs[i]), run(fresh); a != b {
						differs = fmt.Sprintf("client %d op %d: the used expression gives %s, a fresh compile gives %s", ci, oi, short(a, 200), short(b, 200))
					}
				}
			}
			if differs != "" {
				e.violate("expression-graph", "expression-changed", fmt.Sprintf("the compiled expression %q no longer behaves like a fresh compile of the same source after the evaluations (fields of its nodes changed): %s", c.Programs[i].Src, differs))
			}
		}
		for ci := range results {
			outs = append(outs, strings.Join(results[ci], "|"))
		}
		v.Stats.SimTimeMs += time.Since(start).Milliseconds()
	})
	v.SchedDigest = digest(sdig)
	v.OutcomeDigest = digest(strings.Join(outs, "\n"))
	return v
}

func optNames(o []EOpt) string {
	var n []string
	for _, x := range o {
		if x.Kind == "var" {
			n = append(n, fmt.Sprintf("%%%s=v%d", x.Name, x.Var))
		}
	}
	return "[" + strings.Join(n, " ") + "]"
}

var _ fhir.Resource
