package verifsim

import (
	"fmt"
	"strings"

	"google.golang.org/protobuf/proto"
	"google.golang.org/protobuf/reflect/protoreflect"
)

// Variables available to every C17 case (indices are referenced by EOpt.Var).
func c17Vars(r rng, nodeCount int) []VarSpec {
	node := func() VarSpec { return VarSpec{Kind: "node", Res: 0, Node: r.n(nodeCount)} }
	str := func(s string) VarSpec { return VarSpec{Kind: "sys", Sys: &SysVal{"String", s}} }
	return []VarSpec{
		0:  str("alpha"),
		1:  {Kind: "sys", Sys: &SysVal{"Integer", "42"}},
		2:  {Kind: "sys", Sys: &SysVal{"Boolean", "true"}},
		3:  {Kind: "sys", Sys: &SysVal{"Boolean", "false"}},
		4:  node(),
		5:  {Kind: "res", Res: 0},
		6:  {Kind: "coll", Items: []VarSpec{str("x"), node(), {Kind: "sys", Sys: &SysVal{"Integer", "7"}}}, Spare: 2},
		7:  {Kind: "coll"},
		8:  {Kind: "coll", Items: []VarSpec{str("outer"), {Kind: "coll", Items: []VarSpec{str("inner")}}}},
		9:  {Kind: "bad", Bad: "int"},
		10: {Kind: "bad", Bad: "struct"},
		11: {Kind: "coll", Items: []VarSpec{str("ok"), {Kind: "bad", Bad: "string"}}},
		12: {Kind: "nil"},
		13: {Kind: "coll", Items: []VarSpec{{Kind: "coll", Items: []VarSpec{node(), {Kind: "bad", Bad: "ptr"}}}}},
		14: {Kind: "sys", Sys: &SysVal{"Quantity", "5|mg"}},
		15: {Kind: "sys", Sys: &SysVal{"DateTime", "2020-03-07T12:00:00Z"}},
		16: {Kind: "bad", Bad: "slice"},
		17: {Kind: "coll", Items: []VarSpec{str("single")}},
		18: {Kind: "coll", Items: []VarSpec{node(), node()}},
		19: {Kind: "bad", Bad: "float"},
		20: str("beta"),
		// seeded nested collections: valid ones, and ones with exactly one unsupported leaf at a seeded position
		21: randTree(r, nodeCount, false),
		22: randTree(r, nodeCount, false),
		23: randTree(r, nodeCount, false),
		24: randTree(r, nodeCount, true),
		25: randTree(r, nodeCount, true),
		26: randTree(r, nodeCount, true),
		27: randTree(r, nodeCount, true),
		// a ContainedResource wrapper (what Bundle.entry.resource and `contained` hold) is a FHIR message like
		// any other: the variable is the wrapper, alone and as an item of a collection
		28: {Kind: "cr", Res: 0},
		29: {Kind: "coll", Items: []VarSpec{str("w"), {Kind: "cr", Res: 0}, node()}},
	}
}

// randTree builds a collection nested up to three levels with seeded shape (siblings, empty
// nested collections, leaves of several kinds); withBad replaces one seeded leaf by a value
// that is neither a System value nor a FHIR element.
func randTree(r rng, nodeCount int, withBad bool) VarSpec {
	var leaves []*VarSpec
	var build func(depth int) VarSpec
	build = func(depth int) VarSpec {
		v := VarSpec{Kind: "coll"}
		n := r.n(4)
		if depth == 0 {
			n = 1 + r.n(3)
		}
		for i := 0; i < n; i++ {
			if depth < 2 && r.p(0.5) {
				v.Items = append(v.Items, build(depth+1))
			} else {
				switch r.n(3) {
				case 0:
					v.Items = append(v.Items, VarSpec{Kind: "sys", Sys: &SysVal{"String", pick(r, strVocab)}})
				case 1:
					v.Items = append(v.Items, VarSpec{Kind: "sys", Sys: &SysVal{"Integer", fmt.Sprint(r.n(100))}})
				default:
					v.Items = append(v.Items, VarSpec{Kind: "node", Res: 0, Node: r.n(nodeCount)})
				}
			}
		}
		return v
	}
	t := build(0)
	if !withBad {
		return t
	}
	var collect func(v *VarSpec)
	collect = func(v *VarSpec) {
		for i := range v.Items {
			if v.Items[i].Kind == "coll" {
				collect(&v.Items[i])
			} else {
				leaves = append(leaves, &v.Items[i])
			}
		}
	}
	collect(&t)
	bad := VarSpec{Kind: "bad", Bad: pick(r, []string{"int", "string", "struct", "ptr", "slice", "float"})}
	if r.p(0.15) {
		bad = VarSpec{Kind: "nil"}
	}
	if len(leaves) == 0 {
		t.Items = append(t.Items, bad)
		return t
	}
	// bias toward late leaves: an unsupported value after valid siblings is the shape a lazy check misses
	k := r.n(len(leaves))
	if r.p(0.5) {
		k = len(leaves) - 1
	}
	*leaves[k] = bad
	return t
}

var c17ValidVars = []int{0, 1, 2, 3, 4, 5, 6, 7, 8, 14, 15, 17, 18, 20, 21, 22, 23, 28, 29}
var c17BadVars = []int{9, 10, 11, 12, 13, 16, 19, 24, 25, 26, 27}

// the alphabets of the exhaustively enumerated option lists (length <= 4)
var c17EvalAlphabet = []EOpt{
	{Kind: "var", Name: "a", Var: 0}, {Kind: "var", Name: "a", Var: 1}, {Kind: "var", Name: "b", Var: 6},
	{Kind: "var", Name: "context", Var: 0}, {Kind: "var", Name: "ucum", Var: 1},
	{Kind: "var", Name: "c", Var: 9}, {Kind: "var", Name: "c", Var: 11}, {Kind: "var", Name: "a", Var: 12},
	{Kind: "time", TimeMs: 1583593200000},
}

var c17CompileAlphabet = []COpt{
	{Kind: "fn", Name: "fa", Fn: "ident"}, {Kind: "fn", Name: "fb", Fn: "obs0"}, {Kind: "fn", Name: "fa", Fn: "empty"},
	{Kind: "fn", Name: "where", Fn: "ident"}, {Kind: "fn", Name: "join", Fn: "ident"},
	{Kind: "exp"}, {Kind: "perm"}, {Kind: "fn", Name: "fz", Fn: "badsig:firstparam"},
}

var badSigs = []string{"int", "string", "nil", "noparams", "firstparam", "oneresult", "secondresult", "firstresult", "threeresults", "noresults", "concreteerr", "threeresults-errlast", "tworesults-twice", "fourresults"}

// nthList returns the n-th list over an alphabet of size k in length-then-lexicographic order
// (lists of length 0, then 1, ...); ok=false beyond maxLen.
func nthList(n, k, maxLen int) ([]int, bool) {
	count := 1
	for l := 0; l <= maxLen; l++ {
		if n < count {
			out := make([]int, l)
			for i := l - 1; i >= 0; i-- {
				out[i] = n % k
				n /= k
			}
			return out, true
		}
		n -= count
		count *= k
	}
	return nil, false
}

// programs with a hole (@) for the position differential (template posdiff)
var c17FnHoles = []string{
	"Patient.name.where(@.family.exists() or (@.given.exists() and @.use.exists().not()))",
	"Patient.name.select(given.subsetOf(@.given))",
	"@",
	"Patient.name.select(@)",
	"Patient.name.where(@.given.exists())",
	"Patient.name.where(true and @.given.exists())",
	"Patient.name.select(family & @.family)",
	"Patient.name.given[@.count() - 1]",
	"Patient.name[@.count() - 1]",
	"Patient.name.all(@ = @)",
	"Patient.name.exists(@ is HumanName)",
	"Patient.name.select(@ as HumanName)",
	"Patient.name.select(iif(@.exists(), @.given, {}))",
	"Patient.name.select(iif(false, 1, @.family))",
	"Patient.name.where(use = @.use or @.family.exists())",
	"Patient.name.select(given.select(@ & 'x'))",
	"Patient.name.where(given.where(@.length() > 2).exists())",
	"-@.count()",
	"Patient.name.exists(@.given.count() > 0 implies @.family.exists())",
	"Patient.name.select(1 + @.given.count() * 2 - 1)",
	"Patient.name.select(7 div @.given.count())",
	"Patient.name.select(7 mod @.given.count())",
	"Patient.name.select(family > @.family)",
	"Patient.name.select(family != @.family)",
	"Patient.name.select(family ~ @.family)",
	"Patient.name.select(family !~ @.family)",
	"Patient.name.select(family.exists() xor @.given.exists())",
	"Patient.name.select(1 / @.given.count())",
	"Patient.name.select(given.first() <= @.given.last())",
	"Patient.name.select(given).where(@ = @)",
	"Patient.name.select(@).select(@).given",
	"Patient.name.where(@.period.where(@.start.exists()).exists())",
	"Patient.name.iif(@.exists(), @.count(), 0)",
	"Patient.name.select(@.given.intersect(given))",
	"Patient.name.select(given.exclude(@.given).count())",
	"Patient.telecom.select(@.value) = Patient.telecom.value",
	"Patient.name.select(family.startsWith(@.family))",
	"Patient.name.select(family.indexOf(@.family))",
	"Patient.name.select(family.replace(@.family, 'r'))",
	"Patient.name.given.skip(@.count() - 1)",
	"Patient.name.take(@.count())",
	"Patient.name.select(@.family.substring(0, @.given.count()))",
	"Patient.name.select(iif(@.family.exists(), @.family.length() + @.given.count(), -1))",
}

var c17VarHoles = []string{
	"Patient.name.where(@.exists() and (family.exists() or (@ = @).not()))",
	"Patient.name.select(given.intersect(@.toString()))",
	"@",
	"Patient.name.select(@)",
	"Patient.name.where(family = @ or true)",
	"Patient.name.select(family & @.toString())",
	"Patient.name.select(iif(given.exists(), @, {}))",
	"Patient.name.given.where($this != @.toString())",
	"Patient.name.given.select(@.toString() & $this)",
	"Patient.name.all(@.exists())",
	"Patient.name.where(given.where(@.toString().length() > 2).exists())",
	"iif(@.exists(), @, 'none')",
	"Patient.name.exists(@ is String)",
	"Patient.name.given[@.toString().length() - 5]",
	"Patient.name.select(given.select(family.select(@)))",
	"Patient.name.where(given.exists(@ = @))",
	"Patient.name.select(@ = @ and @ != @)",
	"Patient.name.select(@ ~ @)",
	"Patient.name.select(iif(false, 1, iif(true, @)))",
	"-(@.toString().length())",
	"Patient.name.select(@.toString() > 'b')",
	"Patient.name.select(given.exclude(@.toString()))",
	"Patient.name.select(family.startsWith(@.toString()))",
	"Patient.name.select(family.replace('a', @.toString()))",
	"Patient.name.take(@.toString().length() - 4)",
	"Patient.name.select(iif(@ is Integer, @, @.toString().length()))",
	"Patient.name.select(@.toString().substring(1, 2))",
}

const c17ListsPerRun = 20

func c17PreludeRuns() int {
	ne := 1 + 9 + 81 + 729
	return (ne + c17ListsPerRun - 1) / c17ListsPerRun
}

// The lists of length 4 (the property quantifies over lengths 0..4) are enumerated by a second
// block of runs, so that the runs of the first block - and every replay file made from them -
// keep their meaning: run c17Len4First+j carries the lists 820+20j.. (evaluate) and 585+20j..
// (compile) of the length-then-lexicographic order.
const c17Len4First = 1000

func c17Len4Runs() int {
	return (9*9*9*9 + c17ListsPerRun - 1) / c17ListsPerRun
}

func genC17(seed uint64, run int, tier string) *Case {
	r := newRng(seed, uint64(run)*64+streamC17)
	c := &Case{Mode: "C17", Tier: tier, Seed: seed, Run: run, Shape: "swarm", C17: &C17Case{}}
	rg := &resGen{r: r, maxDepth: 3, fill: 0.4, budget: 120}
	m := rg.genResource("Patient")
	pr := m.ProtoReflect()
	nf := pr.Descriptor().Fields().ByName("name")
	for pr.Get(nf).List().Len() < 1+r.n(3) {
		pr.Mutable(nf).List().Append(protoreflect.ValueOfMessage(rg.genValueFor(nf.Message()).ProtoReflect()))
	}
	c.Resources = []ResSpec{encodeMessage(m)}
	if r.p(0.3) {
		c.Resources = append(c.Resources, encodeMessage(rg.genResource("Observation")))
	}
	c.Vars = c17Vars(r, countNodes(m))
	c.Knobs.SwitchThr = pick(r, []int{26, 128, 256})
	c.Knobs.ReuseOpts = r.p(0.5)
	t := make([]uint16, 500)
	for i := range t {
		t[i] = uint16(r.Uint32())
	}
	c.Tape = t

	if run < c17PreludeRuns() || (run >= c17Len4First && run < c17Len4First+c17Len4Runs()) {
		// ---- exhaustively enumerated slice: every option list of length <= 4 ----
		c.Shape = "enumerated-option-lists"
		var ops []C17Op
		for k := 0; k < c17ListsPerRun; k++ {
			ne, nc, maxLen := run*c17ListsPerRun+k, run*c17ListsPerRun+k, 3
			if run >= c17Len4First {
				maxLen = 4
				ne = 1 + 9 + 81 + 729 + (run-c17Len4First)*c17ListsPerRun + k
				nc = 1 + 8 + 64 + 512 + (run-c17Len4First)*c17ListsPerRun + k
			}
			if idx, ok := nthList(ne, len(c17EvalAlphabet), maxLen); ok {
				var opts []EOpt
				for _, i := range idx {
					opts = append(opts, c17EvalAlphabet[i])
				}
				name := pick(r, []string{"a", "b", "c"})
				ops = append(ops, C17Op{Tmpl: "var", Src: "%" + name, Name: name, Res: []int{0}, Opts: opts})
				ops = append(ops, C17Op{Tmpl: "call0", Src: "Patient.name.o0()", COpts: []COpt{{Kind: "fn", Name: "o0", Fn: "obs0"}}, Field: "name", Res: []int{0}, Opts: opts})
				c.C17.EnumEval++
			}
			if idx, ok := nthList(nc, len(c17CompileAlphabet), maxLen); ok {
				var opts []COpt
				for _, i := range idx {
					o := c17CompileAlphabet[i]
					if o.Fn == "badsig:firstparam" {
						o.Fn = "badsig:" + pick(r, badSigs)
					}
					opts = append(opts, o)
				}
				c.C17.Compiles = append(c.C17.Compiles, C17Compile{Src: pick(r, []string{"true", "Patient.name.given", "1 + 1"}), Opts: opts, Patch: r.p(0.2), Note: "enumerated"})
				c.C17.EnumCompile++
			}
		}
		c.C17.Clients = [][]C17Op{ops}
		return c
	}

	// ---- swarm ----
	maxList := 4
	if tier == "thorough" {
		maxList = 6
	}
	randOpts := func(bind map[string]int) []EOpt {
		// the bindings under test first, then seeded extras; then shuffled
		var opts []EOpt
		for n, v := range bind {
			opts = append(opts, EOpt{Kind: "var", Name: n, Var: v})
		}
		// map iteration order must not leak into the case: sort by name
		for i := 0; i < len(opts); i++ {
			for j := i + 1; j < len(opts); j++ {
				if opts[j].Name < opts[i].Name {
					opts[i], opts[j] = opts[j], opts[i]
				}
			}
		}
		extra := r.n(maxList)
		if r.p(0.5) {
			extra = 0
		}
		for i := 0; i < extra; i++ {
			switch x := r.n(10); {
			case x < 4:
				opts = append(opts, EOpt{Kind: "var", Name: pick(r, []string{"x1", "x2", "x3"}), Var: pick(r, c17ValidVars)})
			case x < 6:
				opts = append(opts, EOpt{Kind: "var", Name: pick(r, []string{"a", "b", "x1", "context", "ucum",
					// names that only LOOK like another name (a name is taken literally: nothing is unquoted or folded),
					// and names other engines predefine but this one does not
					"`context`", "'ucum'", "`a`", "'b'", "`x1`", "Context", "UCUM", " a", "resource", "rootResource"}), Var: pick(r, c17ValidVars)})
			case x < 8:
				opts = append(opts, EOpt{Kind: "var", Name: pick(r, []string{"y1", "a", "x1"}), Var: pick(r, c17BadVars)})
			default:
				opts = append(opts, EOpt{Kind: "time", TimeMs: 1583593200000 + int64(r.n(1000))})
			}
		}
		r.Shuffle(len(opts), func(i, j int) { opts[i], opts[j] = opts[j], opts[i] })
		return opts
	}
	fn := func(name, key string) []COpt { return []COpt{{Kind: "fn", Name: name, Fn: key}} }
	genOp := func() C17Op {
		op := C17Op{Res: []int{0}, Field: "name"}
		if len(c.Resources) > 1 && r.p(0.15) {
			op.Res = []int{0, 1}
		}
		if r.p(0.05) {
			op.Res = []int{0, 0}
		}
		switch x := r.n(20); {
		case x < 4:
			v := pick(r, c17ValidVars)
			op.Tmpl, op.Name = "var", pick(r, []string{"a", "b", "a", "b", "resource", "rootResource"})
			op.Src = "%" + op.Name
			op.Opts = randOpts(map[string]int{op.Name: v})
		case x < 5:
			op.Tmpl, op.Src = pick(r, []string{"context", "ucum", "unknown"}), ""
			op.Src = map[string]string{"context": "%context", "ucum": "%ucum", "unknown": "%nosuch"}[op.Tmpl]
			op.Opts = randOpts(nil)
		case x < 7:
			op.Tmpl, op.Name = "select-var", pick(r, []string{"a", "b", "a", "b", "resource"})
			op.Src = "Patient.name.select(%" + op.Name + ")"
			op.Opts = randOpts(map[string]int{op.Name: pick(r, c17ValidVars)})
		case x < 8:
			op.Tmpl, op.Name = "where-var", "a"
			op.Src = "Patient.name.where(%a)"
			op.Opts = randOpts(map[string]int{"a": pick(r, []int{2, 3})})
		case x < 10:
			op.Tmpl, op.Name = "arg-var", pick(r, []string{"a", "b"})
			op.Src, op.COpts = "oa(%"+op.Name+")", fn("oa", "obsAny")
			op.Opts = randOpts(map[string]int{op.Name: pick(r, c17ValidVars)})
		case x < 11:
			op.Tmpl, op.Src, op.COpts = "call0", "Patient.name.o0()", fn("o0", "obs0")
			op.Opts = randOpts(nil)
		case x < 14:
			op.Tmpl = "call-ret"
			op.Arg = pick(r, []string{"empty", "nilc", "const", "fail", "failkeep", "fail", "failkeep"})
			key := op.Arg
			if op.Arg == "fail" || op.Arg == "failkeep" {
				op.K = r.n(3)
				key = fmt.Sprintf("%s:%d", op.Arg, op.K)
				op.Src = pick(r, []string{"Patient.name.cr()", "Patient.name.select(cr())", "Patient.name.where(cr())", "iif(true, cr())", "Patient.name.all(cr())",
					"Patient.name.exists(cr())", "cr().exists()", "Patient.name.cr().count()", "Patient.name.select(given.cr())", "(cr() = true) or true", "Patient.name.first().cr() & 'x'"})
			} else {
				op.Src = "Patient.name.cr()"
			}
			op.COpts = fn("cr", key)
			op.Opts = randOpts(nil)
		case x < 15:
			op.Tmpl, op.Src, op.COpts = "where-call", "Patient.name.where(ot())", fn("ot", "obsT")
			if r.p(0.25) {
				// (a built-in cannot be replaced - whatever the spelling of the name that is registered)
				op.COpts = append(op.COpts, COpt{Kind: "fn", Name: pick(r, []string{"`where`", "Where", "`exists`", "'where'"}), Fn: "empty"})
			}
			op.Opts = randOpts(nil)
		case x < 16:
			op.Tmpl, op.K = "where-failat", 1+r.n(4)
			op.Src, op.COpts = "Patient.name.where(fa())", fn("fa", fmt.Sprintf("failat:%d", op.K))
			op.Opts = randOpts(nil)
		case x < 17:
			if r.p(0.5) {
				op.Tmpl, op.Src, op.COpts = "select-const", "Patient.name.select(k3())", fn("k3", "const")
			} else {
				op.Tmpl, op.Src, op.COpts = "iif-call", "iif(true, o0())", fn("o0", "obs0")
			}
			op.Opts = randOpts(nil)
		case x < 19 && r.p(0.12):
			op.Tmpl, op.K = "nested-fail", r.n(3)
			op.Src = pick(r, []string{"Patient.name.os(fs())", "Patient.name.osi(fs(), 5)", "Patient.name.where(os(fs()) = 'x')", "Patient.name.os(os(fs()))", "Patient.id.os(fs())"})
			op.COpts = []COpt{{Kind: "fn", Name: "os", Fn: "obsS"}, {Kind: "fn", Name: "osi", Fn: "obsSI"}, {Kind: "fn", Name: "fs", Fn: fmt.Sprintf("fail:%d", op.K)}}
			op.Opts = randOpts(nil)
		case x < 19 && r.p(0.1):
			op.Tmpl, op.K = "partial-leak", 1+r.n(3)
			op.Src = pick(r, []string{"Patient.name.select(fp())", "Patient.name.select(fp()).count()", "Patient.name.select(fp().first())", "Patient.name.given.select(fp())", "Patient.name.where(fp().exists()).select(fp())", "Patient.name.fp()"})
			op.COpts = []COpt{{Kind: "fn", Name: "fp", Fn: fmt.Sprintf("failpartial:%d", op.K)}}
			op.Opts = randOpts(nil)
		case x < 19 && r.p(0.12):
			op.Tmpl = "context-after-clobber"
			op.Src = pick(r, []string{"iif(cl().exists(), %context)", "cl().select(%context)", "tail().cl().select(%context)", "iif(cl().exists(), %context.tail()) | %context.first()"}[:3])
			op.COpts = []COpt{{Kind: "fn", Name: "cl", Fn: "clobber"}}
			op.Opts = randOpts(nil)
			if r.p(0.5) && len(c.Resources) > 1 {
				op.Res = []int{0, 1}
			}
		case x < 19 && r.p(0.15):
			// the function a name runs is the one registered under it in this Compile, whatever
			// other Compiles registered: bound method values of several receivers, a declared function
			op.Tmpl = "method-identity"
			kind := pick(r, []string{"method", "method", "methodv"})
			t1, t2 := pick(r, []string{"A", "B", "C"}), pick(r, []string{"A", "B", "C", "D"})
			switch r.n(5) {
			case 3:
				// a name that is a built-in only under WithExperimentalFuncs is free for a user function
				// otherwise - and what it runs is the user's function, whatever an earlier Compile of the
				// same text with the experimental functions produced
				op.Src, op.Arg = "join()", t1
				op.COpts = []COpt{{Kind: "fn", Name: "join", Fn: kind + ":" + t1}}
				if r.p(0.3) {
					op.COpts = append(op.COpts, COpt{Kind: "perm"})
				}
			case 4:
				op.Src, op.Arg = "join()", "\x00" // the built-in: nothing asserted about its result here
				op.COpts = []COpt{{Kind: "exp"}}
				if r.p(0.3) {
					op.COpts = append(op.COpts, COpt{Kind: "perm"})
				}
			case 0:
				op.Src, op.Arg = "mt()", t1
				op.COpts = []COpt{{Kind: "fn", Name: "mt", Fn: kind + ":" + t1}}
				if r.p(0.35) {
					// a name that only looks like mt once something is stripped or folded is another name
					op.COpts = append(op.COpts, COpt{Kind: "fn", Name: pick(r, []string{"`mt`", "Mt", "MT", "'mt'", "mt "}), Fn: kind + ":" + t2})
				}
			case 1:
				op.Src, op.Arg = "mt() & '|' & mu()", t1+"|"+t2
				op.COpts = []COpt{{Kind: "fn", Name: "mt", Fn: kind + ":" + t1}, {Kind: "fn", Name: "mu", Fn: kind + ":" + t2}}
			default:
				op.Src, op.Arg = "mt() & '|' & dt()", t1+"|declared"
				op.COpts = []COpt{{Kind: "fn", Name: "dt", Fn: "declared"}, {Kind: "fn", Name: "mt", Fn: kind + ":" + t1}}
			}
			op.Opts = randOpts(nil)
		case x < 19 && r.p(0.3):
			// position differential: a user function that answers its input stands where `$this` could stand,
			// a variable bound to a System value where its literal could stand - in operands of every
			// operator, inside indexers, in criteria nested in criteria. The two programs must agree.
			op.Tmpl = "posdiff"
			if r.p(0.6) {
				h := pick(r, c17FnHoles)
				op.Src, op.Arg = strings.ReplaceAll(h, "@", "pf()"), strings.ReplaceAll(h, "@", "$this")
				op.COpts = fn("pf", "obs0")
				op.Opts = randOpts(nil)
			} else {
				h := pick(r, c17VarHoles)
				vi := pick(r, []int{0, 1, 20})
				lit := map[int]string{0: "'alpha'", 1: "42", 20: "'beta'"}[vi]
				op.Name = pick(r, []string{"a", "b", "pv"})
				op.Src, op.Arg = strings.ReplaceAll(h, "@", "%"+op.Name), strings.ReplaceAll(h, "@", lit)
				op.Opts = randOpts(map[string]int{op.Name: vi})
			}
		case x < 19 && r.p(0.25):
			op.Tmpl, op.Src = "call-nested", "Patient.name.os(rs())"
			op.COpts = []COpt{{Kind: "fn", Name: "os", Fn: "obsS"}, {Kind: "fn", Name: "rs", Fn: "obsRetS"}}
			op.Opts = randOpts(nil)
		case x < 19:
			switch r.n(3) {
			case 0:
				op.Tmpl, op.COpts = "callS", fn("os", "obsS")
				op.Arg = pick(r, []string{"str-lit", "str-concat", "wrong-type", "empty", "multi"})
				op.Src = "Patient.name.os(" + map[string]string{"str-lit": "'abc'", "str-concat": "'ab' & 'c'", "wrong-type": pick(r, []string{"5", "true", "@2020", "1.5", "given.first()"}), "empty": "{}", "multi": "'ab'.toChars()"}[op.Arg] + ")"
			case 1:
				op.Tmpl, op.COpts = "callS", fn("oi", "obsI")
				op.Arg = pick(r, []string{"int-lit", "wrong-type", "empty", "multi"})
				op.Src = "Patient.name.oi(" + map[string]string{"int-lit": "2 + 3", "wrong-type": pick(r, []string{"'5'", "5.0", "true"}), "empty": "{}", "multi": "'12'.toChars().select(toInteger())"}[op.Arg] + ")"
			default:
				op.Tmpl, op.COpts = "callSI", fn("osi", "obsSI")
				op.Arg = pick(r, []string{"si-lit", "wrong-type", "empty", "multi"})
				op.Src = "Patient.name.osi(" + map[string]string{"si-lit": "'abc', 5", "wrong-type": pick(r, []string{"5, 'abc'", "'abc', '5'"}), "empty": pick(r, []string{"{}, 5", "'abc', {}"}), "multi": "'abc', '12'.toChars().select(toInteger())"}[op.Arg] + ")"
			}
			op.Opts = randOpts(nil)
		default:
			op.Tmpl, op.COpts = "callH", fn("oh", "obsH")
			op.Arg = pick(r, []string{"name-first", "name-all", "wrong-type"})
			op.Src = "Patient.oh(" + map[string]string{"name-first": "name.first()", "name-all": "name", "wrong-type": pick(r, []string{"id", "'x'", "name.given.first()", "telecom.first()"})}[op.Arg] + ")"
			op.Opts = randOpts(nil)
		}
		return op
	}
	nClients := 1 + r.n(3)
	maxOps := 5
	if tier == "thorough" {
		maxOps = 10
	}
	for ci := 0; ci < nClients; ci++ {
		var ops []C17Op
		for oi, n := 0, 1+r.n(maxOps); oi < n; oi++ {
			ops = append(ops, genOp())
		}
		c.C17.Clients = append(c.C17.Clients, ops)
	}
	// compile-time lists beyond the enumerated slice, and source-level rejections
	for i, n := 0, r.n(4); i < n; i++ {
		var opts []COpt
		for k, l := 0, r.n(maxList+1); k < l; k++ {
			o := pick(r, c17CompileAlphabet)
			if o.Fn == "badsig:firstparam" {
				o.Fn = "badsig:" + pick(r, badSigs)
			}
			if o.Kind == "fn" && r.p(0.3) {
				o.Name = pick(r, []string{"fa", "fb", "fc", "now", "exists", "join", "trace", "`fa`", "`where`", "Fa", "`join`"})
			}
			opts = append(opts, o)
		}
		c.C17.Compiles = append(c.C17.Compiles, C17Compile{Src: "true", Opts: opts, Patch: r.p(0.2), Note: "list"})
	}
	if r.p(0.5) {
		src := pick(r, []string{"os()", "os('a', 'b')", "Patient.name.os()", "o0(1)", "Patient.name.o0('x')", "osi('a')", "osi('a', 1, 2)"})
		c.C17.Compiles = append(c.C17.Compiles, C17Compile{Src: src, Opts: []COpt{{Kind: "fn", Name: "os", Fn: "obsS"}, {Kind: "fn", Name: "o0", Fn: "obs0"}, {Kind: "fn", Name: "osi", Fn: "obsSI"}}, WantFail: true, Note: "wrong-arg-count"})
	}
	_ = proto.Clone
	return c
}
