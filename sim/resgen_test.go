package verifsim

// Reflective, descriptor-driven resource generator. A pure function of the rng.

import (
	"fmt"
	"math/rand/v2"
	"sort"
	"strings"

	_ "github.com/google/fhir/go/proto/google/fhir/proto/r4/core/resources/bundle_and_contained_resource_go_proto"
	"google.golang.org/protobuf/encoding/protowire"
	"google.golang.org/protobuf/proto"
	"google.golang.org/protobuf/reflect/protoreflect"
	"google.golang.org/protobuf/reflect/protoregistry"
	"google.golang.org/protobuf/types/known/anypb"
)

const r4 = "google.fhir.r4.core."

// rootTypes are the resource types generated at top level; different shapes on purpose.
var rootTypes = []string{
	"Patient", "Observation", "Encounter", "Condition", "MedicationRequest",
	"Questionnaire", "QuestionnaireResponse", "Bundle", "Practitioner", "Organization",
}

// containedTypes may appear inside Bundle entries and `contained`.
var containedTypes = []string{"Patient", "Observation", "Practitioner", "Organization", "Condition", "Encounter"}

type rng struct{ *rand.Rand }

func newRng(seed, stream uint64) rng { return rng{rand.New(rand.NewPCG(seed, stream))} }
func (r rng) n(n int) int {
	if n <= 0 {
		return 0
	}
	return r.IntN(n)
}
func (r rng) p(prob float64) bool { return r.Float64() < prob }
func pick[T any](r rng, xs []T) T { return xs[r.n(len(xs))] }

var (
	strVocab  = []string{"alpha", "Beta", "gamma delta", "x", "", "Ünï-cödé", "a.b*c", "42", "3.14", "true", "2020-02-29", "official", "home", "O'Neil", "tab\there"}
	codeVocab = []string{"official", "usual", "home", "work", "phone", "email", "final", "mg", "kg", "cm", "a", "b", "c"}
	uriVocab  = []string{"http://example.org/a", "http://example.org/b", "urn:uuid:53fefa32-fcbb-4ff8-8a92-55ee120877b7", "http://loinc.org", "http://unitsofmeasure.org", "http://hl7.org/fhir/StructureDefinition/ext-1"}
	idVocab   = []string{"p1", "p2", "obs-1", "enc1", "a1b2", "x", "#med1"}
	extURLs   = []string{"http://example.org/ext/a", "http://example.org/ext/b", "http://hl7.org/fhir/StructureDefinition/ext-1"}
	decVocab  = []string{"0", "1", "1.0", "1.50", "-2.25", "100", "0.001", "3.14159", "1e2", "12345.678", "-4.50", "-1", "-0.5"}
	tzVocab   = []string{"Z", "UTC", "+00:00", "-03:30", "-02:30", "+05:30", "+12:45", "+13:45", "+01:00", "-05:00", "+10:30", "+11:00", "", "GMT", "NST", "IST", "EST"}
	unitVocab = []string{"mg", "kg", "cm", "m", "s", "min", "h", "d", "wk", "mo", "a", "1"}
)

// Instants biased toward daylight-saving transitions of the zones the simulator uses
// (America/St_Johns, Pacific/Chatham, Europe/Dublin, Australia/Lord_Howe) and calendar edges.
var instantVocabSec = []int64{
	1583593200, // 2020-03-07T15:00:00Z  (St. John's DST starts 2020-03-08)
	1583679600, // 2020-03-08T15:00:00Z
	1604156400, // 2020-10-31T15:00:00Z  (St. John's DST ends 2020-11-01)
	1585915200, // 2020-04-03T12:00:00Z  (Chatham DST ends 2020-04-05)
	1601121600, // 2020-09-26T12:00:00Z  (Chatham DST starts 2020-09-27)
	1585396800, // 2020-03-28T12:00:00Z  (EU DST starts 2020-03-29)
	1603540800, // 2020-10-24T12:00:00Z  (EU DST ends 2020-10-25)
	1582934400, // 2020-02-29T00:00:00Z
	1577836799, // 2019-12-31T23:59:59Z
	951782400,  // 2000-02-29T00:00:00Z
	0,
	1709164800, // 2024-02-29
	-86400 * 365,
}

type resGen struct {
	inPrimList bool // filling an entry of a repeated primitive field
	r        rng
	maxDepth int
	fill     float64 // base probability of populating an optional field
	budget   int     // messages left
}

func findDesc(name string) protoreflect.MessageDescriptor {
	mt, err := protoregistry.GlobalTypes.FindMessageByName(protoreflect.FullName(r4 + name))
	if err != nil {
		panic(fmt.Sprintf("no message type %s: %v", name, err))
	}
	return mt.Descriptor()
}

func newMessage(d protoreflect.MessageDescriptor) protoreflect.Message {
	mt, err := protoregistry.GlobalTypes.FindMessageByName(d.FullName())
	if err != nil {
		panic(err)
	}
	return mt.New()
}

// genResource returns a populated resource of the named type.
func (g *resGen) genResource(typeName string) proto.Message {
	m := newMessage(findDesc(typeName))
	g.fillMessage(m, 0)
	return m.Interface()
}

func isPrimitiveDesc(d protoreflect.MessageDescriptor) bool {
	if d.Fields().ByName("value_us") != nil {
		return true
	}
	v := d.Fields().ByName("value")
	return v != nil && v.Kind() != protoreflect.MessageKind && d.Fields().ByName("extension") != nil && d.Fields().Len() <= 4
}

func (g *resGen) fillMessage(m protoreflect.Message, depth int) {
	d := m.Descriptor()
	g.budget--
	// a message written by a newer producer: fields this schema does not know travel along as
	// unknown fields, and are part of the message (proto.Equal and every re-encoding see them)
	if d.FullName() != "google.protobuf.Any" && g.r.p(0.012) {
		m.SetUnknown(protowire.AppendVarint(protowire.AppendTag(nil, 9000+protowire.Number(g.r.n(50)), protowire.VarintType), uint64(g.r.n(1000))))
	}
	switch {
	case d.FullName() == "google.protobuf.Any":
		return
	case isPrimitiveDesc(d):
		g.fillPrimitive(m, depth)
		return
	case d.FullName() == r4+"Reference":
		g.fillReference(m, depth)
		return
	case d.FullName() == r4+"ContainedResource":
		g.fillContained(m, depth)
		return
	case d.FullName() == r4+"Extension":
		g.fillExtension(m, depth)
		return
	}
	// a oneof wrapper (choice type): populate exactly one alternative
	if d.Oneofs().Len() == 1 && d.Oneofs().Get(0).Fields().Len() == d.Fields().Len() {
		g.fillOneof(m, d.Oneofs().Get(0), depth)
		return
	}
	fields := d.Fields()
	for i := 0; i < fields.Len(); i++ {
		fd := fields.Get(i)
		if fd.ContainingOneof() != nil {
			continue
		}
		name := string(fd.Name())
		prob := g.fill
		switch name {
		case "id":
			if depth == 0 {
				prob = 0.9
			} else {
				prob = 0.05
			}
		case "meta", "implicit_rules", "language", "text", "modifier_extension":
			prob = 0.15
		case "extension":
			prob = 0.25
		case "contained":
			prob = 0.35
		}
		if g.budget <= 0 {
			prob = 0
		} else if depth >= g.maxDepth {
			// at the depth limit no further complex elements - but the primitive members of the element
			// itself are still filled (a Quantity without its value, a Coding without its code are of
			// little use to the functions that read them)
			if fd.Kind() != protoreflect.MessageKind || !isPrimitiveDesc(fd.Message()) || fd.IsList() || name == "id" {
				prob = 0
			}
		}
		if depth == 0 {
			prob += 0.25
		} else {
			prob /= float64(depth)*0.6 + 1
		}
		if !g.r.p(prob) {
			continue
		}
		g.fillField(m, fd, depth)
	}
}

// nullProb: how often a string-valued primitive is generated without a value (more often for the
// entries of a repeated primitive, where the position of the entry matters).
func (g *resGen) nullProb() float64 {
	if g.inPrimList {
		return 0.15
	}
	return 0.02
}

func (g *resGen) fillField(m protoreflect.Message, fd protoreflect.FieldDescriptor, depth int) {
	if fd.Kind() != protoreflect.MessageKind {
		// only primitives wrappers carry scalar fields; they are handled in fillPrimitive
		return
	}
	if fd.IsList() {
		n := 1 + g.r.n(3)
		if g.r.p(0.1) {
			n = 4 + g.r.n(3)
		}
		l := m.Mutable(fd).List()
		for j := 0; j < n && g.budget > 0; j++ {
			if fd.Message().FullName() == "google.protobuf.Any" {
				cr := newMessage(findDesc("ContainedResource"))
				g.fillContained(cr, depth+1)
				a, err := anypb.New(cr.Interface())
				if err != nil {
					panic(err)
				}
				g.foreignAny(a)
				l.Append(protoreflect.ValueOfMessage(a.ProtoReflect()))
				continue
			}
			e := l.NewElement()
			g.inPrimList = isPrimitiveDesc(fd.Message()) && n > 1
			g.fillMessage(e.Message(), depth+1)
			g.inPrimList = false
			l.Append(e)
		}
		// duplicate a sibling sometimes: equal-but-distinct twins matter for identity searches
		if l.Len() >= 1 && g.r.p(0.12) {
			l.Append(protoreflect.ValueOfMessage(proto.Clone(l.Get(g.r.n(l.Len())).Message().Interface()).ProtoReflect()))
		}
		return
	}
	sub := m.Mutable(fd).Message()
	g.fillMessage(sub, depth+1)
}

func (g *resGen) fillOneof(m protoreflect.Message, oo protoreflect.OneofDescriptor, depth int) {
	fs := oo.Fields()
	// prefer primitive alternatives and Quantity/CodeableConcept/Period; any alternative is possible
	var prefer []protoreflect.FieldDescriptor
	for i := 0; i < fs.Len(); i++ {
		fd := fs.Get(i)
		if fd.Kind() != protoreflect.MessageKind {
			continue
		}
		n := string(fd.Message().Name())
		if isPrimitiveDesc(fd.Message()) || n == "Quantity" || n == "CodeableConcept" || n == "Period" || n == "Coding" || n == "Reference" || n == "Range" {
			prefer = append(prefer, fd)
		}
	}
	var fd protoreflect.FieldDescriptor
	if len(prefer) > 0 && g.r.p(0.85) {
		fd = pick(g.r, prefer)
	} else {
		fd = fs.Get(g.r.n(fs.Len()))
	}
	if fd.Kind() != protoreflect.MessageKind {
		return
	}
	g.fillMessage(m.Mutable(fd).Message(), depth+1)
}

func (g *resGen) fillReference(m protoreflect.Message, depth int) {
	d := m.Descriptor()
	oo := d.Oneofs().ByName("reference")
	switch g.r.n(6) {
	case 0:
		fd := d.Fields().ByName("uri")
		s := m.Mutable(fd).Message()
		s.Set(s.Descriptor().Fields().ByName("value"), protoreflect.ValueOfString(pick(g.r, []string{"Patient/p1", "http://example.org/fhir/Observation/obs-1", "urn:uuid:53fefa32-fcbb-4ff8-8a92-55ee120877b7", "Practitioner/x/_history/2"})))
	case 1:
		fd := d.Fields().ByName("fragment")
		s := m.Mutable(fd).Message()
		s.Set(s.Descriptor().Fields().ByName("value"), protoreflect.ValueOfString(pick(g.r, idVocab)))
	case 2:
		// no reference at all, only display
	default:
		// a typed reference: one of the *_id alternatives
		var ids []protoreflect.FieldDescriptor
		for _, n := range []string{"patient_id", "practitioner_id", "organization_id", "observation_id", "encounter_id", "condition_id", "questionnaire_id", "medication_id", "group_id", "device_id", "location_id"} {
			if fd := oo.Fields().ByName(protoreflect.Name(n)); fd != nil {
				ids = append(ids, fd)
			}
		}
		fd := pick(g.r, ids)
		rid := m.Mutable(fd).Message()
		rid.Set(rid.Descriptor().Fields().ByName("value"), protoreflect.ValueOfString(pick(g.r, idVocab)))
		if g.r.p(0.2) {
			h := rid.Mutable(rid.Descriptor().Fields().ByName("history")).Message()
			h.Set(h.Descriptor().Fields().ByName("value"), protoreflect.ValueOfString("2"))
		}
	}
	// the populated alternative sometimes carries an element id / a primitive extension of its own
	if fd := m.WhichOneof(oo); fd != nil && g.r.p(0.3) {
		alt := m.Mutable(fd).Message()
		if idf := alt.Descriptor().Fields().ByName("id"); idf != nil && idf.Kind() == protoreflect.MessageKind && g.r.p(0.6) {
			s := alt.Mutable(idf).Message()
			s.Set(s.Descriptor().Fields().ByName("value"), protoreflect.ValueOfString(pick(g.r, idVocab)))
		}
		if ef := alt.Descriptor().Fields().ByName("extension"); ef != nil && ef.IsList() && g.r.p(0.7) {
			l := alt.Mutable(ef).List()
			e := l.NewElement()
			g.fillExtension(e.Message(), depth+1)
			l.Append(e)
		}
	}
	if g.r.p(0.4) {
		fd := d.Fields().ByName("display")
		s := m.Mutable(fd).Message()
		s.Set(s.Descriptor().Fields().ByName("value"), protoreflect.ValueOfString(pick(g.r, strVocab)))
	}
	if g.r.p(0.15) {
		fd := d.Fields().ByName("type")
		s := m.Mutable(fd).Message()
		s.Set(s.Descriptor().Fields().ByName("value"), protoreflect.ValueOfString("Patient"))
	}
}

func (g *resGen) fillContained(m protoreflect.Message, depth int) {
	d := m.Descriptor()
	name := strings.ToLower(camelToSnake(pick(g.r, containedTypes)))
	fd := d.Fields().ByName(protoreflect.Name(name))
	if fd == nil {
		panic("no ContainedResource alternative " + name)
	}
	sub := m.Mutable(fd).Message()
	// contained resources are kept shallow
	saved := g.maxDepth
	if g.maxDepth > depth+2 {
		g.maxDepth = depth + 2
	}
	g.fillMessage(sub, 0+depth)
	g.maxDepth = saved
	// always give it an id
	if idf := sub.Descriptor().Fields().ByName("id"); idf != nil && !sub.Has(idf) {
		s := sub.Mutable(idf).Message()
		s.Set(s.Descriptor().Fields().ByName("value"), protoreflect.ValueOfString(pick(g.r, idVocab)))
	}
}

func (g *resGen) fillExtension(m protoreflect.Message, depth int) {
	d := m.Descriptor()
	u := m.Mutable(d.Fields().ByName("url")).Message()
	u.Set(u.Descriptor().Fields().ByName("value"), protoreflect.ValueOfString(pick(g.r, extURLs)))
	if depth < g.maxDepth && g.r.p(0.15) {
		l := m.Mutable(d.Fields().ByName("extension")).List()
		e := l.NewElement()
		g.fillExtension(e.Message(), depth+1)
		l.Append(e)
		return
	}
	if g.r.p(0.9) {
		v := m.Mutable(d.Fields().ByName("value")).Message()
		g.fillMessage(v, depth+1)
	}
}

// foreignAny sometimes re-encodes an Any the way another producer might have written it: a
// type URL with another host prefix, and the payload's fields in descending field-number order
// (equal content, different bytes). Reading such a payload must not rewrite it.
// bareAnyRate: how often a contained entry holds the resource itself instead of the wrapper. Zero
// for C18: patch and plain evaluation fail at different points on such an entry, and the C18 model
// takes what a path selects from a plain evaluation (malformed input is not that property's subject).
var bareAnyRate = 0.04

func (g *resGen) foreignAny(a *anypb.Any) {
	if g.r.p(bareAnyRate) {
		// a producer that packed the resource itself instead of the ContainedResource wrapper: the
		// library refuses to enter such an entry - and must leave it as it is
		cr := newMessage(findDesc("ContainedResource"))
		if a.UnmarshalTo(cr.Interface()) == nil {
			if _, inner := wrapperAlt(cr); inner != nil {
				if b, err := anypb.New(inner.Interface()); err == nil {
					a.TypeUrl, a.Value = b.TypeUrl, b.Value
					return
				}
			}
		}
	}
	if g.r.p(0.2) {
		a.TypeUrl = "fhir.example.org/" + a.TypeUrl[strings.LastIndexByte(a.TypeUrl, '/')+1:]
	}
	if g.r.p(0.25) {
		a.Value = reorderFields(a.Value, 2)
	}
}

// reorderFields rewrites a wire-format message with its fields stably sorted by descending field
// number (entries of one repeated field keep their order), recursing depth levels into
// length-delimited fields that parse as messages.
func reorderFields(b []byte, depth int) []byte {
	type fld struct {
		num protowire.Number
		raw []byte
	}
	var fs []fld
	rest := b
	for len(rest) > 0 {
		num, typ, n := protowire.ConsumeTag(rest)
		if n < 0 {
			return b
		}
		m := protowire.ConsumeFieldValue(num, typ, rest[n:])
		if m < 0 {
			return b
		}
		raw := rest[:n+m]
		if typ == protowire.BytesType && depth > 0 {
			if inner, k := protowire.ConsumeBytes(rest[n:]); k >= 0 && len(inner) > 0 {
				if re := reorderFields(inner, depth-1); len(re) == len(inner) {
					raw = protowire.AppendBytes(protowire.AppendTag(nil, num, typ), re)
				}
			}
		}
		fs = append(fs, fld{num, raw})
		rest = rest[n+m:]
	}
	sort.SliceStable(fs, func(i, j int) bool { return fs[i].num > fs[j].num })
	out := make([]byte, 0, len(b))
	for _, f := range fs {
		out = append(out, f.raw...)
	}
	return out
}

func camelToSnake(s string) string {
	var b strings.Builder
	for i, c := range s {
		if c >= 'A' && c <= 'Z' {
			if i > 0 {
				b.WriteByte('_')
			}
			b.WriteRune(c + 32)
		} else {
			b.WriteRune(c)
		}
	}
	return b.String()
}

func (g *resGen) fillPrimitive(m protoreflect.Message, depth int) {
	d := m.Descriptor()
	name := string(d.Name())
	if vus := d.Fields().ByName("value_us"); vus != nil {
		sec := pick(g.r, instantVocabSec)
		if g.r.p(0.4) {
			sec += int64(g.r.n(86400*400)) - 86400*200
		}
		us := sec * 1_000_000
		if name == "Time" {
			us = int64(g.r.n(86400)) * 1_000_000
			if g.r.p(0.3) {
				us += int64(g.r.n(1000)) * 1000
			}
		} else if g.r.p(0.3) {
			us += int64(g.r.n(1000)) * 1000
		}
		m.Set(vus, protoreflect.ValueOfInt64(us))
		if tz := d.Fields().ByName("timezone"); tz != nil {
			m.Set(tz, protoreflect.ValueOfString(pick(g.r, tzVocab)))
		}
		if pf := d.Fields().ByName("precision"); pf != nil {
			vals := pf.Enum().Values()
			// skip PRECISION_UNSPECIFIED (0) most of the time
			k := 1 + g.r.n(vals.Len()-1)
			if g.r.p(0.08) {
				k = 0
			}
			m.Set(pf, protoreflect.ValueOfEnum(vals.Get(k).Number()))
		}
	} else {
		vf := d.Fields().ByName("value")
		switch vf.Kind() {
		case protoreflect.StringKind:
			var s string
			switch name {
			case "Decimal":
				s = pick(g.r, decVocab)
			case "Code":
				s = pick(g.r, codeVocab)
			case "Uri", "Url", "Canonical", "Oid", "Uuid":
				s = pick(g.r, uriVocab)
			case "Id":
				s = pick(g.r, idVocab)
			case "Xhtml":
				s = "<div xmlns=\"http://www.w3.org/1999/xhtml\">t</div>"
			default:
				s = pick(g.r, strVocab)
			}
			m.Set(vf, protoreflect.ValueOfString(s))
		case protoreflect.BoolKind:
			m.Set(vf, protoreflect.ValueOfBool(g.r.p(0.5)))
		case protoreflect.Int32Kind, protoreflect.Sint32Kind:
			m.Set(vf, protoreflect.ValueOfInt32(int32(pick(g.r, []int{0, 1, 2, 3, 7, -1, -5, 42, 100, 2147483647, -2147483648}))))
		case protoreflect.Uint32Kind:
			m.Set(vf, protoreflect.ValueOfUint32(uint32(pick(g.r, []int{0, 1, 2, 3, 7, 42, 100}))))
		case protoreflect.BytesKind:
			m.Set(vf, protoreflect.ValueOfBytes([]byte(pick(g.r, strVocab))))
		case protoreflect.EnumKind:
			vals := vf.Enum().Values()
			k := 0
			if vals.Len() > 1 {
				k = 1 + g.r.n(vals.Len()-1)
			}
			m.Set(vf, protoreflect.ValueOfEnum(vals.Get(k).Number()))
		case protoreflect.Int64Kind:
			m.Set(vf, protoreflect.ValueOfInt64(int64(g.r.n(1000))))
		}
	}
	// a primitive without a value: FHIR JSON writes null in the value array and carries the rest
	// in the underscore array ("given":[null,"Bea"], "_given":[{extension...},null]); in the protos
	// that is an element with no value and the primitiveHasNoValue extension. It is an element
	// like any other: it occupies an index.
	if vf := d.Fields().ByName("value"); vf != nil && vf.Kind() == protoreflect.StringKind && name != "Xhtml" && g.r.p(g.nullProb()) {
		if ef := d.Fields().ByName("extension"); ef != nil && ef.IsList() {
			m.Clear(vf)
			l := m.Mutable(ef).List()
			e := l.NewElement().Message()
			u := e.Mutable(e.Descriptor().Fields().ByName("url")).Message()
			u.Set(u.Descriptor().Fields().ByName("value"), protoreflect.ValueOfString("https://g.co/fhir/StructureDefinition/primitiveHasNoValue"))
			vx := e.Mutable(e.Descriptor().Fields().ByName("value")).Message()
			b := vx.Mutable(vx.Descriptor().Fields().ByName("boolean")).Message()
			b.Set(b.Descriptor().Fields().ByName("value"), protoreflect.ValueOfBool(true))
			l.Append(protoreflect.ValueOfMessage(e))
		}
	}
	// primitive extensions / element ids, rarely
	if depth < g.maxDepth && g.r.p(0.04) {
		if ef := d.Fields().ByName("extension"); ef != nil && ef.IsList() {
			l := m.Mutable(ef).List()
			e := l.NewElement()
			g.fillExtension(e.Message(), depth+1)
			l.Append(e)
		}
	}
}

// genValueFor returns a populated message of descriptor d (used for patch values).
func (g *resGen) genValueFor(d protoreflect.MessageDescriptor) proto.Message {
	m := newMessage(d)
	g.fillMessage(m, g.maxDepth-1)
	return m.Interface()
}
