package verifsim

import (
	"crypto/sha256"
	"encoding/hex"
	"errors"
	"fmt"
	"regexp"
	"sort"
	"strings"

	"github.com/verily-src/fhirpath-go/fhirpath"
	"github.com/verily-src/fhirpath-go/fhirpath/internal/expr"
	"github.com/verily-src/fhirpath-go/fhirpath/internal/funcs/impl"
	"github.com/verily-src/fhirpath-go/fhirpath/patch"
	"github.com/verily-src/fhirpath-go/fhirpath/system"
	"google.golang.org/protobuf/proto"
	"google.golang.org/protobuf/reflect/protoreflect"
)

// Stats are per-run counters, summed by the worker.
type Stats struct {
	Runs      int            `json:"runs"`
	SubRuns   int            `json:"sub_runs"`
	Ops       int            `json:"ops"`
	NodeSteps int            `json:"node_steps"`
	Yields    int            `json:"yield_points"`
	Switches  int            `json:"switches"`
	Compiles  int            `json:"compiles"`
	SimTimeMs int64          `json:"sim_time_ms"`
	Faults    map[string]int `json:"faults"`
	Probes    map[string]int `json:"probes"`
}

func (s *Stats) fault(k string) {
	if s.Faults == nil {
		s.Faults = map[string]int{}
	}
	s.Faults[k]++
}
func (s *Stats) probe(k string) { s.probeN(k, 1) }
func (s *Stats) probeN(k string, n int) {
	if s.Probes == nil {
		s.Probes = map[string]int{}
	}
	s.Probes[k] += n
}
func (s *Stats) add(o *Stats) {
	s.Runs += o.Runs
	s.SubRuns += o.SubRuns
	s.Ops += o.Ops
	s.NodeSteps += o.NodeSteps
	s.Yields += o.Yields
	s.Switches += o.Switches
	s.Compiles += o.Compiles
	s.SimTimeMs += o.SimTimeMs
	for k, v := range o.Faults {
		if s.Faults == nil {
			s.Faults = map[string]int{}
		}
		s.Faults[k] += v
	}
	for k, v := range o.Probes {
		s.probeN(k, v)
	}
}

// ---------------------------------------------------------------------------

func digest(s string) string {
	h := sha256.Sum256([]byte(s))
	return hex.EncodeToString(h[:8])
}

var detMarshal = proto.MarshalOptions{Deterministic: true}

func msgBytes(m proto.Message) []byte {
	b, err := detMarshal.Marshal(m)
	if err != nil {
		return []byte("marshal-error:" + err.Error())
	}
	return b
}

func msgDigest(m proto.Message) string {
	h := sha256.Sum256(msgBytes(m))
	return hex.EncodeToString(h[:8])
}

// nodeRef identifies a message inside an input resource: resource index and
// pre-order index of the message in a deterministic walk.
type nodeRef struct{ res, idx int }

// walkMessages visits m and every message reachable from it through populated
// message-typed fields, in field-number declaration order (deterministic).
// Payloads of google.protobuf.Any are not entered.
func walkMessages(m protoreflect.Message, visit func(protoreflect.Message)) {
	visit(m)
	if d := m.Descriptor(); d.Oneofs().Len() == 1 && d.Oneofs().Get(0).Fields().Len() == d.Fields().Len() {
		// a pure oneof wrapper (ContainedResource has ~150 alternatives): avoid iterating all of them
		if fd := m.WhichOneof(d.Oneofs().Get(0)); fd != nil && fd.Kind() == protoreflect.MessageKind {
			walkMessages(m.Get(fd).Message(), visit)
		}
		return
	}
	type ent struct {
		fd protoreflect.FieldDescriptor
		v  protoreflect.Value
	}
	var ents []ent
	m.Range(func(fd protoreflect.FieldDescriptor, v protoreflect.Value) bool {
		if fd.Kind() == protoreflect.MessageKind || fd.Kind() == protoreflect.GroupKind {
			ents = append(ents, ent{fd, v})
		}
		return true
	})
	// Range's order is unspecified: sort by field number
	sort.Slice(ents, func(i, j int) bool { return ents[i].fd.Number() < ents[j].fd.Number() })
	for _, e := range ents {
		switch {
		case e.fd.IsList():
			l := e.v.List()
			for j := 0; j < l.Len(); j++ {
				walkMessages(l.Get(j).Message(), visit)
			}
		case e.fd.IsMap():
			// no FHIR proto uses maps
		default:
			walkMessages(e.v.Message(), visit)
		}
	}
}

func indexNodes(idx map[proto.Message]nodeRef, res int, m proto.Message) []proto.Message {
	var all []proto.Message
	walkMessages(m.ProtoReflect(), func(x protoreflect.Message) {
		pm := x.Interface()
		if _, dup := idx[pm]; !dup {
			idx[pm] = nodeRef{res, len(all)}
		}
		all = append(all, pm)
	})
	return all
}

// presence renders which fields are populated in every message of a tree
// (catches a has-bit or an empty sub-message materialised by Mutable()).
func presence(m proto.Message) string {
	var b strings.Builder
	walkMessages(m.ProtoReflect(), func(x protoreflect.Message) {
		var nums []string
		x.Range(func(fd protoreflect.FieldDescriptor, v protoreflect.Value) bool {
			s := fmt.Sprintf("%06d", fd.Number())
			if fd.IsList() {
				s += fmt.Sprintf("*%d", v.List().Len())
			}
			nums = append(nums, s)
			return true
		})
		sort.Strings(nums)
		b.WriteByte('(')
		b.WriteString(strings.Join(nums, ","))
		b.WriteByte(')')
	})
	return digest(b.String())
}

var ptrRe = regexp.MustCompile(`0x[0-9a-fA-F]{6,}`)

// maskPtr used to mask what looks like an address in error text; the unchanged library prints none
// and a change that does is reported (S100). What IS normalised: protobuf-go deliberately varies
// the space after "proto:" in its error texts (a non-breaking space, chosen by a hash of the
// binary) so that nobody depends on them - the plain and the race binary differ there.
func maskPtr(s string) string { return strings.ReplaceAll(s, "\u00a0", " ") }

type sentinel struct {
	name string
	err  error
}

var sentinels = []sentinel{
	{"fhirpath.ErrInvalidField", fhirpath.ErrInvalidField},
	{"fhirpath.ErrUnsupportedType", fhirpath.ErrUnsupportedType},
	{"fhirpath.ErrExistingConstant", fhirpath.ErrExistingConstant},
	{"expr.ErrNotSingleton", expr.ErrNotSingleton},
	{"expr.ErrInvalidType", expr.ErrInvalidType},
	{"expr.ErrConstantNotFound", expr.ErrConstantNotFound},
	{"impl.ErrWrongArity", impl.ErrWrongArity},
	{"impl.ErrInvalidReturnType", impl.ErrInvalidReturnType},
	{"patch.ErrNotImplemented", patch.ErrNotImplemented},
	{"patch.ErrInvalidInput", patch.ErrInvalidInput},
	{"patch.ErrInvalidEnum", patch.ErrInvalidEnum},
	{"patch.ErrInvalidUnsignedInt", patch.ErrInvalidUnsignedInt},
	{"patch.ErrNotPatchable", patch.ErrNotPatchable},
	{"system.ErrNotConvertible", system.ErrNotConvertible},
}

// injected errors (fault kinds node-error / callback-error)
var injected = []error{
	errors.New("sim-injected-0"), errors.New("sim-injected-1"), errors.New("sim-injected-2"), errors.New("sim-injected-3"),
}

func errClasses(err error) []string {
	var out []string
	for _, s := range sentinels {
		if errors.Is(err, s.err) {
			out = append(out, s.name)
		}
	}
	for i, e := range injected {
		if errors.Is(err, e) {
			out = append(out, fmt.Sprintf("injected-%d", i))
		}
	}
	sort.Strings(out)
	return out
}

func canonErr(err error) string {
	return "err(" + maskPtr(err.Error()) + "|" + strings.Join(errClasses(err), ",") + ")"
}

// canonItem renders one collection item. Input nodes are rendered with their
// identity (resource, pre-order index) so "is the input's own node" is part of
// the outcome; everything else by value.
func canonItem(b *strings.Builder, idx map[proto.Message]nodeRef, it any) {
	switch v := it.(type) {
	case nil:
		b.WriteString("nil")
	case system.Any:
		if s, ok := it.(fmt.Stringer); ok {
			fmt.Fprintf(b, "%T(%s)", it, s.String())
		} else {
			fmt.Fprintf(b, "%T(%v)", it, it)
		}
	case proto.Message:
		name := string(v.ProtoReflect().Descriptor().FullName())
		if ref, ok := idx[v]; ok {
			fmt.Fprintf(b, "%s@r%d.n%d#%s", name, ref.res, ref.idx, msgDigest(v))
		} else {
			fmt.Fprintf(b, "%s@fresh#%s", name, msgDigest(v))
		}
	case system.Collection:
		b.WriteString("nested[")
		for _, x := range v {
			canonItem(b, idx, x)
			b.WriteByte(';')
		}
		b.WriteByte(']')
	default:
		fmt.Fprintf(b, "%T(%v)", it, it)
	}
}

func canonCollection(idx map[proto.Message]nodeRef, c system.Collection) string {
	var b strings.Builder
	if c == nil {
		b.WriteString("ok-nil[")
	} else {
		b.WriteString("ok[")
	}
	for _, it := range c {
		canonItem(&b, idx, it)
		b.WriteByte(';')
	}
	b.WriteByte(']')
	return b.String()
}

func short(s string, n int) string {
	if len(s) <= n {
		return s
	}
	return s[:n] + fmt.Sprintf("…(+%d)", len(s)-n)
}
