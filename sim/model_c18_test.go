package verifsim

// The reference model for FHIRPatch (mode C18): a location language over the
// resource tree and the four operations applied by direct reflection at a
// location - no path evaluation, no identity search, no value normalisation.
// A "JSON element" is a populated message-typed field (or one entry of a list);
// a choice wrapper (…X messages, ContainedResource) and the alternative inside it
// are one element.

import (
	"fmt"
	"strings"

	"google.golang.org/protobuf/proto"
	"google.golang.org/protobuf/reflect/protoreflect"
)

type step struct {
	num protoreflect.FieldNumber
	idx int // -1: singular field
}

// loc leads from the resource root to the slot holding an element. For a choice
// element the slot holds the wrapper; wrapped tells that the message the location was
// recorded for is the alternative inside it.
type loc struct {
	steps   []step
	wrapped bool
}

func (l loc) String() string {
	var b strings.Builder
	for _, s := range l.steps {
		if s.idx >= 0 {
			fmt.Fprintf(&b, "/%d[%d]", s.num, s.idx)
		} else {
			fmt.Fprintf(&b, "/%d", s.num)
		}
	}
	if l.wrapped {
		b.WriteString("~")
	}
	return b.String()
}

// isWrapperDesc: a message that is nothing but one oneof (choice types, ContainedResource).
func isWrapperDesc(d protoreflect.MessageDescriptor) bool {
	if d.Oneofs().Len() != 1 || d.Oneofs().Get(0).Fields().Len() != d.Fields().Len() {
		return false
	}
	n := string(d.Name())
	return strings.HasSuffix(n, "X") || n == "ContainedResource"
}

func wrapperAlt(m protoreflect.Message) (protoreflect.FieldDescriptor, protoreflect.Message) {
	d := m.Descriptor()
	if !isWrapperDesc(d) {
		return nil, nil
	}
	fd := m.WhichOneof(d.Oneofs().Get(0))
	if fd == nil || fd.Kind() != protoreflect.MessageKind {
		return nil, nil
	}
	return fd, m.Get(fd).Message()
}

type locIndex struct {
	byMsg map[proto.Message]loc
	order []proto.Message // located messages in walk order (root excluded)
	root  proto.Message
}

func sortedMsgFields(m protoreflect.Message) []protoreflect.FieldDescriptor {
	var fds []protoreflect.FieldDescriptor
	fs := m.Descriptor().Fields()
	for i := 0; i < fs.Len(); i++ {
		fd := fs.Get(i)
		if fd.Kind() != protoreflect.MessageKind || !m.Has(fd) {
			continue
		}
		if fd.ContainingOneof() != nil && !isWrapperDesc(m.Descriptor()) {
			continue // Reference.reference alternatives (ReferenceId ...) are proto artefacts, not FHIR elements
		}
		fds = append(fds, fd)
	}
	return fds // descriptor order is deterministic
}

// buildLocIndex records the location of every element of the resource. Payloads of
// google.protobuf.Any (contained resources) are not entered: navigation unpacks them
// into fresh messages, so nothing inside them can be found by identity.
func buildLocIndex(root proto.Message) *locIndex {
	li := &locIndex{byMsg: map[proto.Message]loc{}, root: root}
	var walk func(m protoreflect.Message, prefix []step)
	walk = func(m protoreflect.Message, prefix []step) {
		if m.Descriptor().FullName() == "google.protobuf.Any" {
			return
		}
		for _, fd := range sortedMsgFields(m) {
			visit := func(child protoreflect.Message, idx int) {
				st := append(append([]step(nil), prefix...), step{fd.Number(), idx})
				li.byMsg[child.Interface()] = loc{steps: st}
				li.order = append(li.order, child.Interface())
				if afd, inner := wrapperAlt(child); afd != nil {
					li.byMsg[inner.Interface()] = loc{steps: st, wrapped: true}
					li.order = append(li.order, inner.Interface())
					walk(inner, append(append([]step(nil), st...), step{afd.Number(), -1}))
					return
				}
				walk(child, st)
			}
			if fd.IsList() {
				l := m.Get(fd).List()
				for i := 0; i < l.Len(); i++ {
					visit(l.Get(i).Message(), i)
				}
			} else {
				visit(m.Get(fd).Message(), -1)
			}
		}
	}
	walk(root.ProtoReflect(), nil)
	return li
}

// resolve walks steps in root and returns the parent message, the field and the index of the slot.
func resolve(root proto.Message, steps []step) (protoreflect.Message, protoreflect.FieldDescriptor, int, error) {
	if len(steps) == 0 {
		return nil, nil, 0, fmt.Errorf("the root has no slot")
	}
	cur := root.ProtoReflect()
	for i, s := range steps {
		fd := cur.Descriptor().Fields().ByNumber(s.num)
		if fd == nil || fd.Kind() != protoreflect.MessageKind {
			return nil, nil, 0, fmt.Errorf("step %d: no message field %d on %s", i, s.num, cur.Descriptor().Name())
		}
		if i == len(steps)-1 {
			if s.idx >= 0 {
				if !fd.IsList() || s.idx >= cur.Get(fd).List().Len() {
					return nil, nil, 0, fmt.Errorf("step %d: index %d outside list %s", i, s.idx, fd.Name())
				}
			} else if fd.IsList() || !cur.Has(fd) {
				return nil, nil, 0, fmt.Errorf("step %d: singular field %s is not populated", i, fd.Name())
			}
			return cur, fd, s.idx, nil
		}
		if s.idx >= 0 {
			if !fd.IsList() || s.idx >= cur.Get(fd).List().Len() {
				return nil, nil, 0, fmt.Errorf("step %d: index %d outside list %s", i, s.idx, fd.Name())
			}
			cur = cur.Get(fd).List().Get(s.idx).Message()
		} else {
			if fd.IsList() || !cur.Has(fd) {
				return nil, nil, 0, fmt.Errorf("step %d: singular field %s is not populated", i, fd.Name())
			}
			cur = cur.Get(fd).Message()
		}
	}
	panic("unreachable")
}

// elementAt returns the message a location denotes in root (the alternative for a wrapped location).
func elementAt(root proto.Message, l loc) (protoreflect.Message, error) {
	if len(l.steps) == 0 {
		return root.ProtoReflect(), nil
	}
	p, fd, idx, err := resolve(root, l.steps)
	if err != nil {
		return nil, err
	}
	var m protoreflect.Message
	if idx >= 0 {
		m = p.Get(fd).List().Get(idx).Message()
	} else {
		m = p.Get(fd).Message()
	}
	if l.wrapped {
		_, inner := wrapperAlt(m)
		if inner == nil {
			return nil, fmt.Errorf("wrapped location without alternative")
		}
		return inner, nil
	}
	return m, nil
}

// modelReject is returned when the reference model has no defined result for an operation.
type modelReject struct{ reason string }

func (r *modelReject) Error() string { return "model rejects: " + r.reason }

func reject(format string, a ...any) error { return &modelReject{fmt.Sprintf(format, a...)} }

// slotValue builds what a slot of declared type t must hold when value is put there:
// the value itself when the types agree, the wrapper with the matching alternative for a
// choice slot. typeMismatch says the types do not agree (no normalisation is modelled).
func slotValue(parent protoreflect.Message, fd protoreflect.FieldDescriptor, value proto.Message) (protoreflect.Message, error) {
	if value == nil {
		return nil, reject("nil value")
	}
	t := fd.Message()
	vd := value.ProtoReflect().Descriptor()
	if t == vd || t.FullName() == vd.FullName() {
		return proto.Clone(value).ProtoReflect(), nil
	}
	if isWrapperDesc(t) {
		fs := t.Fields()
		for i := 0; i < fs.Len(); i++ {
			afd := fs.Get(i)
			if afd.Kind() == protoreflect.MessageKind && afd.Message().FullName() == vd.FullName() {
				var w protoreflect.Message
				if fd.IsList() {
					w = parent.NewField(fd).List().NewElement().Message()
				} else {
					w = parent.NewField(fd).Message()
				}
				w.Set(afd, protoreflect.ValueOfMessage(proto.Clone(value).ProtoReflect()))
				return w, nil
			}
		}
		return nil, reject("type-mismatch: choice %s has no alternative of type %s", t.Name(), vd.Name())
	}
	return nil, reject("type-mismatch: %s value for a slot of type %s", vd.Name(), t.Name())
}

func rebuildList(parent protoreflect.Message, fd protoreflect.FieldDescriptor, build func(old protoreflect.List, add func(protoreflect.Value))) {
	old := parent.Get(fd).List()
	nl := parent.NewField(fd).List()
	build(old, func(v protoreflect.Value) { nl.Append(v) })
	if nl.Len() == 0 {
		parent.Clear(fd)
		return
	}
	parent.Set(fd, protoreflect.ValueOfList(nl))
}

func modelDelete(m proto.Message, l loc) error {
	p, fd, idx, err := resolve(m, l.steps)
	if err != nil {
		return reject("delete: %v", err)
	}
	if idx < 0 {
		p.Clear(fd)
		return nil
	}
	rebuildList(p, fd, func(old protoreflect.List, add func(protoreflect.Value)) {
		for i := 0; i < old.Len(); i++ {
			if i != idx {
				add(old.Get(i))
			}
		}
	})
	return nil
}

// modelReplaceWith substitutes the slot content with exactly slot (no type check).
func modelReplaceWith(m proto.Message, l loc, slot protoreflect.Message) error {
	p, fd, idx, err := resolve(m, l.steps)
	if err != nil {
		return reject("replace: %v", err)
	}
	if idx < 0 {
		p.Set(fd, protoreflect.ValueOfMessage(slot))
		return nil
	}
	p.Mutable(fd).List().Set(idx, protoreflect.ValueOfMessage(slot))
	return nil
}

func modelReplace(m proto.Message, l loc, value proto.Message) error {
	p, fd, _, err := resolve(m, l.steps)
	if err != nil {
		return reject("replace: %v", err)
	}
	slot, err := slotValue(p, fd, value)
	if err != nil {
		return err
	}
	return modelReplaceWith(m, l, slot)
}

// fieldByFHIRName finds the message-typed field of d that the FHIR JSON property `name` denotes.
func fieldByFHIRName(d protoreflect.MessageDescriptor, name string) protoreflect.FieldDescriptor {
	fs := d.Fields()
	for i := 0; i < fs.Len(); i++ {
		fd := fs.Get(i)
		if fd.ContainingOneof() != nil {
			continue
		}
		if fhirName(fd) == name || fd.JSONName() == name {
			return fd
		}
	}
	return nil
}

// fhirName is the FHIR (JSON) name of a field: the proto name in lowerCamelCase; the
// google/fhir protos append "_value" to names that collide with reserved words.
func fhirName(fd protoreflect.FieldDescriptor) string {
	n := string(fd.Name())
	switch n {
	case "class_value", "for_value", "assert_value", "package_value", "extends_value", "import_value", "final_value", "abstract_value", "default_value_reserved":
		n = strings.TrimSuffix(n, "_value")
	}
	return snakeToCamel(n)
}

func snakeToCamel(s string) string {
	var b strings.Builder
	up := false
	for _, c := range s {
		if c == '_' {
			up = true
			continue
		}
		if up && c >= 'a' && c <= 'z' {
			c -= 32
		}
		up = false
		b.WriteRune(c)
	}
	return b.String()
}

// modelAdd: the element at l (the root for an empty location) gains value under name.
func modelAdd(m proto.Message, l loc, name string, value proto.Message) (protoreflect.Message, protoreflect.FieldDescriptor, error) {
	parent, err := elementAt(m, l)
	if err != nil {
		return nil, nil, reject("add: %v", err)
	}
	fd := fieldByFHIRName(parent.Descriptor(), name)
	if fd == nil {
		return nil, nil, reject("unknown-field: %s has no element %q", parent.Descriptor().Name(), name)
	}
	if fd.Kind() != protoreflect.MessageKind {
		return nil, nil, reject("unknown-field: %q is not an element", name)
	}
	if !fd.IsList() && parent.Has(fd) {
		return nil, nil, reject("populated: %s.%s already has a value", parent.Descriptor().Name(), name)
	}
	slot, err := slotValue(parent, fd, value)
	if err != nil {
		return parent, fd, err
	}
	if fd.IsList() {
		parent.Mutable(fd).List().Append(protoreflect.ValueOfMessage(slot))
	} else {
		parent.Set(fd, protoreflect.ValueOfMessage(slot))
	}
	return parent, fd, nil
}

// modelAddWith appends/sets exactly slot (no type check); used for the frame check of a
// normalised value.
func modelAddWith(m proto.Message, l loc, name string, slot protoreflect.Message) error {
	parent, err := elementAt(m, l)
	if err != nil {
		return reject("add: %v", err)
	}
	fd := fieldByFHIRName(parent.Descriptor(), name)
	if fd == nil || fd.Kind() != protoreflect.MessageKind {
		return reject("unknown-field")
	}
	if fd.IsList() {
		parent.Mutable(fd).List().Append(protoreflect.ValueOfMessage(slot))
	} else {
		if parent.Has(fd) {
			return reject("populated")
		}
		parent.Set(fd, protoreflect.ValueOfMessage(slot))
	}
	return nil
}

// modelInsert: the list holding the selected elements gains value at index.
func modelInsert(m proto.Message, listOf loc, value proto.Message, index int) error {
	p, fd, idx, err := resolve(m, listOf.steps)
	if err != nil {
		return reject("insert: %v", err)
	}
	if idx < 0 || !fd.IsList() {
		return reject("not-a-list: the selected element is not a member of a list")
	}
	n := p.Get(fd).List().Len()
	if index < 0 || index > n {
		return reject("index: %d outside [0,%d]", index, n)
	}
	slot, err := slotValue(p, fd, value)
	if err != nil {
		return err
	}
	rebuildList(p, fd, func(old protoreflect.List, add func(protoreflect.Value)) {
		for i := 0; i < old.Len(); i++ {
			if i == index {
				add(protoreflect.ValueOfMessage(slot))
			}
			add(old.Get(i))
		}
		if index == old.Len() {
			add(protoreflect.ValueOfMessage(slot))
		}
	})
	return nil
}

// sameList reports whether all locations are members of one list and returns one of them.
func sameList(ls []loc) (loc, bool) {
	if len(ls) == 0 {
		return loc{}, false
	}
	first := ls[0]
	if len(first.steps) == 0 || first.steps[len(first.steps)-1].idx < 0 {
		return loc{}, false
	}
	for _, l := range ls[1:] {
		if len(l.steps) != len(first.steps) {
			return loc{}, false
		}
		for i := range l.steps {
			if l.steps[i].num != first.steps[i].num {
				return loc{}, false
			}
			if i < len(l.steps)-1 && l.steps[i].idx != first.steps[i].idx {
				return loc{}, false
			}
		}
		if l.steps[len(l.steps)-1].idx < 0 {
			return loc{}, false
		}
	}
	return first, true
}
