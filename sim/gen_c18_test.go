package verifsim

// Generator for mode C18: histories of patch operations. The generator walks its own
// copy of the resource (kept in step with the reference model), chooses a location,
// renders it as FHIRPath in one of several spellings, and chooses the value and faults.

import (
	"fmt"
	"strings"

	apb "github.com/google/fhir/go/proto/google/fhir/proto/annotations_go_proto"
	"google.golang.org/protobuf/proto"
	"google.golang.org/protobuf/reflect/protoreflect"
	"google.golang.org/protobuf/types/known/anypb"
)

type c18Gen struct {
	r    rng
	tier string
	cur  proto.Message // generator's copy of the resource, evolves with the model
	root string
	// set by selector when the filter it spelled selects NO entry of the list (render resets and reads it)
	nothing bool
}

func isEnumCode(d protoreflect.MessageDescriptor) bool {
	v := d.Fields().ByName("value")
	return v != nil && v.Kind() == protoreflect.EnumKind
}

func fhirTypeName(d protoreflect.MessageDescriptor) (string, bool) {
	if _, ok := d.Parent().(protoreflect.FileDescriptor); !ok {
		return "", false
	}
	n := string(d.Name())
	if isEnumCode(d) {
		return "code", true
	}
	if isPrimitiveDesc(d) {
		return strings.ToLower(n[:1]) + n[1:], true
	}
	return n, true
}

func fpString(s string) string {
	s = strings.ReplaceAll(s, `\`, `\\`)
	s = strings.ReplaceAll(s, `'`, `\'`)
	s = strings.ReplaceAll(s, "\t", `\t`)
	s = strings.ReplaceAll(s, "\n", `\n`)
	return "'" + s + "'"
}

// primLiteral renders the value of a primitive element as a FHIRPath literal usable in an
// equality test, when that is straightforward.
func primLiteral(m protoreflect.Message) (string, bool) {
	d := m.Descriptor()
	v := d.Fields().ByName("value")
	if v == nil || !isPrimitiveDesc(d) {
		return "", false
	}
	switch string(d.Name()) {
	case "String", "Code", "Id", "Uri", "Markdown", "Url", "Canonical", "Oid", "Uuid":
		if v.Kind() == protoreflect.StringKind {
			return fpString(m.Get(v).String()), true
		}
	case "Boolean":
		if m.Get(v).Bool() {
			return "true", true
		}
		return "false", true
	case "Integer", "PositiveInt", "UnsignedInt":
		if v.Kind() == protoreflect.Int32Kind || v.Kind() == protoreflect.Sint32Kind {
			n := m.Get(v).Int()
			if n < 0 {
				return "", false
			}
			return fmt.Sprint(n), true
		}
		return fmt.Sprint(m.Get(v).Uint()), true
	}
	return "", false
}

func primEqual(a, b protoreflect.Message) bool {
	la, ok1 := primLiteral(a)
	lb, ok2 := primLiteral(b)
	return ok1 && ok2 && la == lb && a.Descriptor() == b.Descriptor()
}

// selector renders the choice of element k of list l; exact reports whether the spelling
// denotes exactly that element.
func (g *c18Gen) selector(l protoreflect.List, k int, isExt bool) (sel string, exact bool) {
	n := l.Len()
	el := l.Get(k).Message()
	switch x := g.r.n(100); {
	case x < 34:
		return fmt.Sprintf("[%d]", k), true
	case x < 44:
		if k == 0 {
			return ".first()", true
		}
		if k == n-1 {
			return ".last()", true
		}
		return fmt.Sprintf("[%d]", k), true
	case x < 50:
		return fmt.Sprintf(".skip(%d).first()", k), true
	case x < 55:
		return fmt.Sprintf(".take(%d).last()", k+1), true
	case x < 58:
		if k == n-1 && n > 1 {
			return fmt.Sprintf(".tail()[%d]", k-1), true
		}
		return fmt.Sprintf("[%d]", k), true
	case x < 62:
		return pick(g.r, []string{".where(true)", ".select($this)", ".trace('t')"}) + fmt.Sprintf("[%d]", k), true
	case x < 66:
		if k <= 2 {
			return fmt.Sprintf("[%%i%d]", k), true // needs the variable (supplied by decorate, or deliberately not)
		}
		return fmt.Sprintf("[%d]", k), true
	case x < 88:
		if g.r.p(0.5) {
			// where(repeatedChild = literal), the literal being one of SEVERAL values the child has in this
			// entry, and no entry having that value alone: `=` between collections of different sizes is
			// not true, so the filter selects nothing - whatever the operation, nothing may change
			var rc []protoreflect.FieldDescriptor
			for _, fd := range sortedMsgFields(el) {
				if fd.IsList() && el.Get(fd).List().Len() >= 2 {
					if _, ok := primLiteral(el.Get(fd).List().Get(0).Message()); ok {
						rc = append(rc, fd)
					}
				}
			}
			if len(rc) > 0 {
				fd := pick(g.r, rc)
				vals := el.Get(fd).List()
				v := vals.Get(g.r.n(vals.Len())).Message()
				if lit, ok := primLiteral(v); ok {
					none := true
					for i := 0; i < n; i++ {
						ol := l.Get(i).Message().Get(fd).List()
						if ol.Len() < 2 {
							none = none && !(ol.Len() == 1 && primEqual(ol.Get(0).Message(), v))
							continue
						}
						// an entry whose values are all alike might compare equal item by item in some reading: avoid
						all := true
						for j := 0; j < ol.Len(); j++ {
							all = all && primEqual(ol.Get(j).Message(), v)
						}
						none = none && !all
					}
					if none {
						g.nothing = true
						return fmt.Sprintf(".where(%s = %s)", fhirName(fd), lit), false
					}
				}
			}
		}
		// where(child = literal)
		if lit, ok := primLiteral(el); ok {
			cnt := 0
			for i := 0; i < n; i++ {
				if primEqual(l.Get(i).Message(), el) {
					cnt++
				}
			}
			return fmt.Sprintf(".where($this = %s)", lit), cnt == 1
		}
		var cands []protoreflect.FieldDescriptor
		for _, fd := range sortedMsgFields(el) {
			if fd.IsList() {
				continue
			}
			if _, ok := primLiteral(el.Get(fd).Message()); ok {
				cands = append(cands, fd)
			}
		}
		if len(cands) == 0 {
			return fmt.Sprintf("[%d]", k), true
		}
		fd := pick(g.r, cands)
		lit, _ := primLiteral(el.Get(fd).Message())
		cnt := 0
		for i := 0; i < n; i++ {
			o := l.Get(i).Message()
			if o.Has(fd) && primEqual(o.Get(fd).Message(), el.Get(fd).Message()) {
				cnt++
			}
		}
		if isExt && string(fd.Name()) == "url" && g.r.p(0.6) {
			return "\x00ext:" + el.Get(fd).Message().Get(el.Get(fd).Message().Descriptor().Fields().ByName("value")).String(), cnt == 1
		}
		return fmt.Sprintf(".where(%s = %s)", fhirName(fd), lit), cnt == 1
	default:
		// the whole list
		return "", n == 1
	}
}

type rendered struct {
	path    string
	exact   bool
	needVar bool // uses %iN
	needIdf bool // uses idf()
	loc     string // the location the path was spelled for (empty: the path denotes a whole list)
	nothing bool   // a filter of the path selects no entry: the path denotes nothing
}

// render spells the location l of g.cur. whole: leave the last list step unselected (insert).
func (g *c18Gen) render(l loc, whole bool) (out rendered) {
	out = rendered{exact: true}
	g.nothing = false
	defer func() { out.nothing, g.nothing = g.nothing, false }()
	root := g.cur.ProtoReflect()
	s := string(root.Descriptor().Name())
	if g.r.p(0.06) {
		s = "$this"
	}
	if g.r.p(0.03) {
		s = "%context"
	}
	cur := root
	for i, st := range l.steps {
		fd := cur.Descriptor().Fields().ByNumber(st.num)
		if isWrapperDesc(cur.Descriptor()) {
			// the alternative of a choice: no segment; optionally a type filter
			alt := cur.Get(fd).Message()
			if tn, ok := fhirTypeName(alt.Descriptor()); ok && g.r.p(0.3) {
				if g.r.p(0.5) {
					s = "(" + s + " as " + tn + ")"
				} else {
					s += ".ofType(" + tn + ")"
				}
			}
			cur = alt
			continue
		}
		name := fhirName(fd)
		if g.r.p(0.1) {
			name = fd.JSONName()
		}
		last := i == len(l.steps)-1
		if st.idx >= 0 {
			list := cur.Get(fd).List()
			if last && whole {
				s += "." + name
			} else {
				sel, exact := g.selector(list, st.idx, fd.Message().Name() == "Extension" && fd.Name() == "extension") // (extension(url) does not look into modifierExtension)
				if strings.HasPrefix(sel, "\x00ext:") {
					s += ".extension(" + fpString(sel[5:]) + ")"
				} else {
					s += "." + name + sel
				}
				if strings.Contains(sel, "%i") {
					out.needVar = true
				}
				out.exact = out.exact && exact
			}
			cur = list.Get(st.idx).Message()
		} else {
			s += "." + name
			cur = cur.Get(fd).Message()
		}
	}
	if l.wrapped {
		// the location was recorded for the alternative inside a choice slot
		if _, inner := wrapperAlt(cur); inner != nil {
			if tn, ok := fhirTypeName(inner.Descriptor()); ok && g.r.p(0.25) {
				if g.r.p(0.5) {
					s = "(" + s + " as " + tn + ")"
				} else {
					s += ".ofType(" + tn + ")"
				}
			}
		}
	}
	// trailing no-ops (exercise the identical-slice rule of the last-result tracking)
	switch x := g.r.n(100); {
	case x < 6:
		s += ".idf()"
		out.needIdf = true
	case x < 10:
		s += ".trace('t')"
	case x < 13:
		s += ".where(true)"
	case x < 16:
		s += ".select($this)"
	case x < 18:
		s = "iif(true, " + s + ")"
	}
	out.path = s
	if !whole {
		out.loc = l.String()
	}
	return out
}

// valueFor chooses a value for a slot of declared type t.
func (g *c18Gen) valueFor(t protoreflect.MessageDescriptor, forceRight bool) (proto.Message, string) {
	rg := &resGen{r: g.r, maxDepth: 2, fill: 0.45, budget: 25}
	right := func() proto.Message {
		if isWrapperDesc(t) {
			fs := t.Fields()
			var prefer []protoreflect.FieldDescriptor
			for i := 0; i < fs.Len(); i++ {
				if fs.Get(i).Kind() == protoreflect.MessageKind {
					n := string(fs.Get(i).Message().Name())
					if t.Name() == "ContainedResource" {
						for _, ct := range containedTypes {
							if n == ct {
								prefer = append(prefer, fs.Get(i))
							}
						}
					} else if isPrimitiveDesc(fs.Get(i).Message()) || n == "Quantity" || n == "CodeableConcept" || n == "Period" || n == "Coding" || n == "Reference" {
						prefer = append(prefer, fs.Get(i))
					}
				}
			}
			if len(prefer) == 0 {
				return nil
			}
			afd := pick(g.r, prefer)
			if t.Name() == "ContainedResource" {
				rg.maxDepth, rg.budget = 2, 30
				m := newMessage(afd.Message())
				rg.fillMessage(m, 0)
				return m.Interface()
			}
			return rg.genValueFor(afd.Message())
		}
		if t.FullName() == "google.protobuf.Any" {
			cr := newMessage(findDesc("ContainedResource"))
			rg.fillContained(cr, 1)
			a, _ := anypb.New(cr.Interface())
			return a
		}
		return rg.genValueFor(t)
	}
	if forceRight {
		return right(), ""
	}
	mk := func(name string, set func(m protoreflect.Message, v protoreflect.FieldDescriptor)) proto.Message {
		m := newMessage(findDesc(name))
		set(m, m.Descriptor().Fields().ByName("value"))
		return m.Interface()
	}
	str := func(name, s string) proto.Message {
		return mk(name, func(m protoreflect.Message, v protoreflect.FieldDescriptor) { m.Set(v, protoreflect.ValueOfString(s)) })
	}
	x := g.r.n(100)
	switch {
	case x < 62:
		if v := right(); v != nil {
			return v, ""
		}
		return str("String", "x"), "wrong-type"
	case x < 80:
		// normalisable / sibling values
		switch {
		case isEnumCode(t):
			vals := t.Fields().ByName("value").Enum().Values()
			ev := vals.Get(g.r.n(vals.Len()))
			kebab := strings.ReplaceAll(strings.ToLower(string(ev.Name())), "_", "-")
			code := kebab
			if proto.HasExtension(ev.Options(), apb.E_FhirOriginalCode) {
				code = proto.GetExtension(ev.Options(), apb.E_FhirOriginalCode).(string)
			}
			note := "code-as-string"
			switch g.r.n(8) {
			case 0:
				code, note = strings.ToUpper(kebab), "invalid-code"
			case 1:
				code, note = strings.ReplaceAll(kebab, "-", "_")+"_x", "invalid-code"
			case 2:
				code, note = "no-such-code", "invalid-code"
			case 3:
				if code != kebab || ev.Number() == 0 {
					// the lower-kebab spelling of the enum name is not the FHIR code of this value
					code, note = kebab, "invalid-code"
				}
			}
			return str(pick(g.r, []string{"String", "Code", "Id"}), code), note
		case t.Name() == "UnsignedInt" || t.Name() == "PositiveInt":
			n := pick(g.r, []int{0, 1, 7, 42, -1, -5})
			note := "integer-for-unsigned"
			if n < 0 {
				note = "negative-for-unsigned"
			}
			return mk("Integer", func(m protoreflect.Message, v protoreflect.FieldDescriptor) {
				m.Set(v, protoreflect.ValueOfInt32(int32(n)))
			}), note
		case t.Name() == "String":
			return str(pick(g.r, []string{"Code", "Id", "Markdown", "Uri"}), pick(g.r, strVocab)), "sibling-type"
		case t.Name() == "Code" || t.Name() == "Id" || t.Name() == "Uri" || t.Name() == "Markdown":
			return str("String", pick(g.r, codeVocab)), "sibling-type"
		case t.Name() == "Integer":
			return mk("PositiveInt", func(m protoreflect.Message, v protoreflect.FieldDescriptor) { m.Set(v, protoreflect.ValueOfUint32(7)) }), "sibling-type"
		case t.Name() == "Decimal":
			return mk("Integer", func(m protoreflect.Message, v protoreflect.FieldDescriptor) { m.Set(v, protoreflect.ValueOfInt32(3)) }), "sibling-type"
		case t.Name() == "DateTime":
			return rg.genValueFor(findDesc("Date")), "sibling-type"
		case t.Name() == "Date":
			return rg.genValueFor(findDesc("DateTime")), "sibling-type"
		}
		return rg.genValueFor(findDesc(pick(g.r, []string{"Coding", "HumanName", "Boolean", "String", "Integer", "Period"}))), "wrong-type"
	case x < 92:
		for try := 0; try < 4; try++ {
			w := findDesc(pick(g.r, []string{"Coding", "HumanName", "Boolean", "String", "Integer", "Period", "Identifier", "Quantity", "Extension", "Patient"}))
			if w.FullName() != t.FullName() {
				return rg.genValueFor(w), "wrong-type"
			}
		}
		return rg.genValueFor(findDesc("Attachment")), "wrong-type"
	default:
		return nil, "nil-value"
	}
}

func specOf(m proto.Message) *ResSpec {
	if m == nil {
		return nil
	}
	s := encodeMessage(m)
	return &s
}

// slotType returns the declared type of the slot at l in g.cur.
func (g *c18Gen) slotInfo(l loc) (protoreflect.Message, protoreflect.FieldDescriptor, int) {
	p, fd, idx, err := resolve(g.cur, l.steps)
	if err != nil {
		panic("generator: " + err.Error())
	}
	return p, fd, idx
}

func (g *c18Gen) pickLoc(li *locIndex, pred func(m proto.Message, l loc) bool) (proto.Message, loc, bool) {
	if len(li.order) == 0 {
		return nil, loc{}, false
	}
	for try := 0; try < 12; try++ {
		m := li.order[g.r.n(len(li.order))]
		l := li.byMsg[m]
		if pred == nil || pred(m, l) {
			return m, l, true
		}
	}
	return nil, loc{}, false
}

// notWrapperItself: locations recorded for a populated wrapper are reached through their alternative.
func notWrapperItself(m proto.Message, l loc) bool {
	if m.ProtoReflect().Descriptor().FullName() == "google.protobuf.Any" {
		return false // whole contained entries cannot be addressed as elements (navigation yields copies)
	}
	if afd, _ := wrapperAlt(m.ProtoReflect()); afd != nil && !l.wrapped {
		return false
	}
	return true
}

func (g *c18Gen) decorate(op *C18Op, rd rendered) (expectOK bool) {
	expectOK = rd.exact
	if rd.exact && rd.loc != "" && op.Path == rd.path {
		// the path was spelled for one location of the resource as it is now: that is what it denotes
		op.Want, op.State = rd.loc, digest(string(msgBytes(g.cur)))
	}
	if rd.nothing && op.Path == rd.path {
		// ... or for no location at all
		op.Want, op.State = "-", digest(string(msgBytes(g.cur)))
	}
	if rd.needIdf {
		// idf() answers its input; a share of them also evaluates another expression on the way
		// (a user function that uses the library while a patch operation is evaluating its path)
		op.COpts = append(op.COpts, COpt{Kind: "fn", Name: "idf", Fn: pick(g.r, []string{"ident", "ident", "reenter"})})
	}
	op.API = pick(g.r, []string{"expr", "expr", "pkg"})
	if rd.needVar {
		if g.r.p(0.85) {
			op.API = "expr"
			for k := 0; k <= 2; k++ {
				if strings.Contains(op.Path, fmt.Sprintf("%%i%d", k)) {
					op.EOpts = append(op.EOpts, EOpt{Kind: "var", Name: fmt.Sprintf("i%d", k), Var: k})
				}
			}
		} else {
			expectOK = false // the variable is not supplied: evaluation error
		}
		if op.API == "pkg" && op.Op != "add" {
			expectOK = false
		}
	}
	// faults
	switch x := g.r.n(100); {
	case x < 8:
		op.FailN = 1 + g.r.n(8)
		expectOK = false
	case x < 11:
		op.Path += ".f1()"
		op.COpts = append(op.COpts, COpt{Kind: "fn", Name: "f1", Fn: "fail:1"})
		op.Note += "+callback-error"
		expectOK = false
	case x < 14:
		if g.r.p(0.5) {
			op.COpts = append(op.COpts, COpt{Kind: "fn", Name: "where", Fn: "ident"})
		} else {
			op.COpts = append(op.COpts, COpt{Kind: "fn", Name: "dup", Fn: "ident"}, COpt{Kind: "fn", Name: "dup", Fn: "empty"})
		}
		op.Note += "+option-fail"
		expectOK = false
	case x < 17:
		if op.API == "expr" || op.Op == "add" {
			if g.r.p(0.5) {
				op.EOpts = append(op.EOpts, EOpt{Kind: "var", Name: "dupv", Var: 0}, EOpt{Kind: "var", Name: "dupv", Var: 1})
			} else {
				op.EOpts = append(op.EOpts, EOpt{Kind: "var", Name: pick(g.r, []string{"context", "ucum", "bad"}), Var: 4})
			}
			op.Note += "+option-fail"
			expectOK = false
		}
	}
	return expectOK
}

// genOp generates one operation against g.cur and applies the model when the operation is
// expected to succeed. follow, when non-nil, asks for the inverse of the previous operation.
type followUp struct {
	kind string // delete-at | replace-back
	l    loc
	old  proto.Message
}

func (g *c18Gen) genOp(follow *followUp) (C18Op, *followUp) {
	li := buildLocIndex(g.cur)
	if follow != nil {
		switch follow.kind {
		case "delete-at":
			if _, _, _, err := resolve(g.cur, follow.l.steps); err == nil {
				rd := g.render(follow.l, false)
				op := C18Op{Op: "delete", Path: rd.path, Note: "inverse"}
				if g.decorate(&op, rd) {
					_ = modelDelete(g.cur, follow.l)
				}
				return op, nil
			}
		case "replace-back":
			if _, _, _, err := resolve(g.cur, follow.l.steps); err == nil {
				rd := g.render(follow.l, false)
				op := C18Op{Op: "replace", Path: rd.path, Value: specOf(follow.old), Note: "inverse"}
				if g.decorate(&op, rd) {
					_ = modelReplace(g.cur, follow.l, follow.old)
				}
				return op, nil
			}
		}
	}
	// contained resources are unpacked afresh by navigation: targets inside them cannot be patched
	if cf := g.cur.ProtoReflect().Descriptor().Fields().ByName("contained"); cf != nil && g.cur.ProtoReflect().Has(cf) && g.r.p(0.1) {
		if op, ok := g.containedOp(cf); ok {
			return op, nil
		}
	}
	x := g.r.n(100)
	switch {
	case x < 5:
		rd := rendered{path: string(g.cur.ProtoReflect().Descriptor().Name()), exact: true}
		if _, l, ok := g.pickLoc(li, notWrapperItself); ok {
			rd = g.render(l, g.r.p(0.5))
		}
		op := C18Op{Op: "move", Path: rd.path, Index: g.r.n(4) - 1, Dest: g.r.n(4) - 1}
		if g.r.p(0.3) {
			op.Dest = op.Index
		}
		g.decorate(&op, rd)
		return op, nil
	case x < 28:
		_, l, ok := g.pickLoc(li, notWrapperItself)
		if !ok {
			break
		}
		rd := g.render(l, false)
		op := C18Op{Op: "delete", Path: rd.path}
		if g.r.p(0.08) {
			// an absent element: a populated parent, an unpopulated singular field
			if el, err := elementAt(g.cur, l); err == nil {
				fs := el.Descriptor().Fields()
				for try := 0; try < 6; try++ {
					fd := fs.Get(g.r.n(fs.Len()))
					if fd.Kind() == protoreflect.MessageKind && fd.ContainingOneof() == nil && !el.Has(fd) {
						op.Path = rd.path + "." + fhirName(fd)
						op.Note = "absent"
						g.decorate(&op, rd)
						return op, nil
					}
				}
			}
		}
		if g.decorate(&op, rd) {
			_ = modelDelete(g.cur, l)
		}
		return op, nil
	case x < 58:
		m, l, ok := g.pickLoc(li, notWrapperItself)
		if !ok {
			break
		}
		_, fd, _ := g.slotInfo(l)
		v, note := g.valueFor(fd.Message(), false)
		rd := g.render(l, false)
		op := C18Op{Op: "replace", Path: rd.path, Value: specOf(v), Note: note}
		old := proto.Clone(m)
		if g.decorate(&op, rd) && v != nil {
			if modelReplace(g.cur, l, v) == nil && g.r.p(0.35) {
				return op, &followUp{kind: "replace-back", l: l, old: old}
			}
		}
		return op, nil
	case x < 83:
		// add: parent = any non-primitive element or the root
		var pl loc
		parent := g.cur.ProtoReflect()
		if g.r.p(0.75) {
			if m, l, ok := g.pickLoc(li, func(m proto.Message, l loc) bool {
				d := m.ProtoReflect().Descriptor()
				return notWrapperItself(m, l) && !isPrimitiveDesc(d) && d.FullName() != "google.protobuf.Any"
			}); ok {
				pl, parent = l, m.ProtoReflect()
			}
		}
		fs := parent.Descriptor().Fields()
		var cands []protoreflect.FieldDescriptor
		for i := 0; i < fs.Len(); i++ {
			fd := fs.Get(i)
			if fd.Kind() == protoreflect.MessageKind && fd.ContainingOneof() == nil {
				cands = append(cands, fd)
			}
		}
		if len(cands) == 0 {
			break
		}
		fd := pick(g.r, cands)
		name := fhirName(fd)
		note := ""
		switch y := g.r.n(100); {
		case y < 4:
			name, note = string(fd.Name())+"_x", "bad-name"
		case y < 7:
			name, note = strings.ToUpper(name[:1])+name[1:], "bad-name"
		case y < 10:
			name, note = "noSuchElement", "bad-name"
		case y < 12 && strings.Contains(string(fd.Name()), "_"):
			name, note = string(fd.Name()), "bad-name"
		}
		v, vnote := g.valueFor(fd.Message(), false)
		if note == "" && v != nil && isWrapperDesc(fd.Message()) && fd.Message().Name() != "ContainedResource" && g.r.p(0.3) {
			// the JSON spelling of a choice element (valueQuantity, deceasedBoolean): not an element
			// name of the FHIRPath model, which knows the choice only as value / deceased
			if tn, ok := fhirTypeName(v.ProtoReflect().Descriptor()); ok {
				name, note = name+strings.ToUpper(tn[:1])+tn[1:], "bad-name"
			}
		}
		if note == "" {
			note = vnote
		} else if vnote != "" {
			note += "+" + vnote
		}
		if !fd.IsList() && parent.Has(fd) {
			note += "+populated"
		}
		rd := g.render(pl, false)
		op := C18Op{Op: "add", Path: rd.path, Name: name, Value: specOf(v), Note: strings.TrimPrefix(note, "+")}
		if g.decorate(&op, rd) && v != nil {
			if _, _, err := modelAdd(g.cur, pl, name, v); err == nil && g.r.p(0.4) {
				// inverse: delete what was just added
				np, err2 := elementAt(g.cur, pl)
				if err2 == nil {
					st := append(append([]step(nil), pl.steps...), step{})
					if pl.wrapped {
						afd, _ := wrapperAlt(mustSlot(g.cur, pl))
						st = append(append([]step(nil), pl.steps...), step{afd.Number(), -1}, step{})
					}
					idx := -1
					if fd.IsList() {
						idx = np.Get(fd).List().Len() - 1
					}
					st[len(st)-1] = step{fd.Number(), idx}
					return op, &followUp{kind: "delete-at", l: loc{steps: st}}
				}
			}
		}
		return op, nil
	default:
		// insert into the list holding some list member
		m, l, ok := g.pickLoc(li, func(m proto.Message, l loc) bool {
			return notWrapperItself(m, l) && len(l.steps) > 0 && l.steps[len(l.steps)-1].idx >= 0
		})
		if !ok {
			break
		}
		_ = m
		p, fd, _ := g.slotInfo(l)
		n := p.Get(fd).List().Len()
		idx := g.r.n(n+3) - 1 // [-1, n+1]
		v, note := g.valueFor(fd.Message(), false)
		if idx < 0 || idx > n {
			note = strings.TrimPrefix(note+"+bad-index", "+")
		}
		whole := g.r.p(0.85)
		rd := g.render(l, whole)
		op := C18Op{Op: "insert", Path: rd.path, Index: idx, Value: specOf(v), Note: note}
		if g.decorate(&op, rd) && v != nil {
			if modelInsert(g.cur, l, v, idx) == nil && g.r.p(0.4) {
				st := append([]step(nil), l.steps...)
				st[len(st)-1].idx = idx
				return op, &followUp{kind: "delete-at", l: loc{steps: st}}
			}
		}
		return op, nil
	}
	// fallback: an operation on the root
	op := C18Op{Op: "delete", Path: string(g.cur.ProtoReflect().Descriptor().Name()) + ".id", API: "expr"}
	_ = modelDelete
	if idf := g.cur.ProtoReflect().Descriptor().Fields().ByName("id"); idf != nil && g.cur.ProtoReflect().Has(idf) {
		g.cur.ProtoReflect().Clear(idf)
	}
	return op, nil
}

func mustSlot(root proto.Message, l loc) protoreflect.Message {
	m, err := slotAt(root, l)
	if err != nil {
		panic("generator: " + err.Error())
	}
	return m
}

// containedOp generates an operation whose target lies inside a contained resource: an
// ordinary operation on that resource taken on its own, with the path prefixed.
func (g *c18Gen) containedOp(cf protoreflect.FieldDescriptor) (C18Op, bool) {
	root := g.cur.ProtoReflect()
	l := root.Get(cf).List()
	if l.Len() == 0 {
		return C18Op{}, false
	}
	k := g.r.n(l.Len())
	inner, err := unpackContained(g.cur, k)
	if err != nil {
		return C18Op{}, false
	}
	tn := string(inner.ProtoReflect().Descriptor().Name())
	prefix := fmt.Sprintf("%s.contained[%d]", root.Descriptor().Name(), k)
	single := false
	if l.Len() == 1 && g.r.p(0.4) {
		prefix = fmt.Sprintf("%s.contained", root.Descriptor().Name())
		single = true
	}
	for try := 0; try < 4; try++ {
		sub := &c18Gen{r: g.r, tier: g.tier, cur: proto.Clone(inner)}
		var op C18Op
		nested := false
		if icf := inner.ProtoReflect().Descriptor().Fields().ByName("contained"); icf != nil && inner.ProtoReflect().Get(icf).List().Len() > 0 && g.r.p(0.6) {
			// a contained entry of the contained resource
			var ok bool
			if op, ok = sub.containedOp(icf); !ok || op.Contained == nil || op.Contained.Next != nil {
				continue
			}
			nested = true
		} else {
			op, _ = sub.genOp(nil)
			if op.Contained != nil {
				continue
			}
		}
		i := strings.Index(op.Path, tn)
		if i < 0 || strings.Contains(op.Path[:i], "$this") || strings.Contains(op.Path[:i], "%context") {
			continue
		}
		next := op.Contained
		if !nested {
			next = nil
		}
		op.Contained = &C18Contained{Idx: k, Type: tn, Inner: op.Path, Single: single, Next: next}
		if op.Value != nil && g.r.p(0.15) {
			op.BadUTF8 = true // marshal fault: the write-back into the Any must fail, and leave everything as it was
		}
		op.Path = op.Path[:i] + prefix + op.Path[i+len(tn):]
		op.Note = strings.TrimPrefix(op.Note+"+contained", "+")
		// keep the generator's copy in step with what the model will say
		if next, err := withContained(g.cur, k, sub.cur); err == nil {
			g.cur = next
		}
		return op, true
	}
	return C18Op{}, false
}

func genC18(seed uint64, run int, tier string) *Case {
	r := newRng(seed, uint64(run)*64+streamC18)
	c := &Case{Mode: "C18", Tier: tier, Seed: seed, Run: run, Shape: "history", C18: &C18Case{}}
	c.Vars = []VarSpec{
		{Kind: "sys", Sys: &SysVal{"Integer", "0"}}, {Kind: "sys", Sys: &SysVal{"Integer", "1"}}, {Kind: "sys", Sys: &SysVal{"Integer", "2"}},
		{Kind: "sys", Sys: &SysVal{"String", "official"}}, {Kind: "bad", Bad: "int"},
	}
	maxOps := 5
	if tier == "thorough" {
		maxOps = 12
	}
	nClients := 1
	if r.p(0.4) {
		nClients = 2 + r.n(2)
	}
	c.Knobs.SwitchThr = pick(r, []int{26, 128, 256})
	nRes := 1 + r.n(2)
	var msgs []proto.Message
	for i := 0; i < nRes; i++ {
		rg := &resGen{r: r, maxDepth: 3 + r.n(2), fill: 0.3 + 0.4*r.Float64(), budget: 60 + r.n(200)}
		t := pick(r, rootTypes)
		if i > 0 && r.p(0.5) {
			t = string(msgs[0].ProtoReflect().Descriptor().Name()) // same type, other content: paths carry over
		}
		m := rg.genResource(t)
		msgs = append(msgs, m)
		c.Resources = append(c.Resources, encodeMessage(m))
	}
	for ci := 0; ci < nClients; ci++ {
		if ci > 0 && r.p(0.5) {
			// the same history on a private copy of the same resource: maximal sharing of compiled expressions
			src := c.C18.Clients[0]
			n := 1 + r.n(len(src.Ops))
			res := src.Res
			if nRes > 1 && r.p(0.4) {
				// ... or on ANOTHER resource: the same compiled expressions meet data of another shape
				// (other choice alternatives, other contained types), where a step may be invalid
				res = (src.Res + 1) % nRes
			}
			ops := append([]C18Op(nil), src.Ops[:n]...)
			if res != src.Res {
				for k := range ops {
					if ops[k].Contained != nil {
						// the decomposition was made for the other resource: mark it as not applicable, so that
						// the operation is judged on its failure path only
						cc := *ops[k].Contained
						cc.Type = "?"
						ops[k].Contained = &cc
					}
					ops[k].BadUTF8 = false
				}
			}
			c.C18.Clients = append(c.C18.Clients, C18Client{Res: res, Ops: ops})
			continue
		}
		ri := r.n(nRes)
		g := &c18Gen{r: r, tier: tier, cur: proto.Clone(msgs[ri])}
		var ops []C18Op
		var follow *followUp
		n := 1 + r.n(maxOps)
		for oi := 0; oi < n; oi++ {
			var op C18Op
			if follow == nil && len(ops) >= 2 && r.p(0.14) {
				// the very same compiled expression again, later in the history (whatever it selects by
				// now): state kept in a patch.Expression between its uses must not matter
				op = ops[r.n(len(ops)-1)]
				for try := 0; try < 3 && op.Contained == nil; try++ {
					op = ops[r.n(len(ops)-1)] // prefer expressions that enter a contained resource (they carry more state)
				}
				op.API, op.FailN = "expr", 0
				op.Note = strings.TrimPrefix(strings.ReplaceAll(op.Note, "+repeat", "")+"+repeat", "+")
				if r.p(0.4) {
					op.Op, op.Value = "delete", nil
				}
				ops = append(ops, op)
				continue
			}
			op, follow = g.genOp(follow)
			if op.API == "" {
				op.API = "expr"
			}
			ops = append(ops, op)
		}
		c.C18.Clients = append(c.C18.Clients, C18Client{Res: ri, Ops: ops})
	}
	c.ClockMs = int64(r.n(1000)) * 86400_000
	t := make([]uint16, 600)
	for i := range t {
		t[i] = uint16(r.Uint32())
	}
	c.Tape = t
	return c
}
