package verifsim

import "testing"

type C17Case struct{}

func (c *C17Case) sample() any { return nil }

type C18Case struct{}

func (c *C18Case) sample() any { return nil }

func genC03(seed uint64, run int, tier string) *Case { return nil }
func genC17(seed uint64, run int, tier string) *Case { return nil }
func genC18(seed uint64, run int, tier string) *Case { return nil }
func execC03(t *testing.T, c *Case) *Verdict         { return &Verdict{Infra: "not built"} }
func execC17(t *testing.T, c *Case) *Verdict         { return &Verdict{Infra: "not built"} }
func execC18(t *testing.T, c *Case) *Verdict         { return &Verdict{Infra: "not built"} }
func runMinimise(t *testing.T)                       { t.Fatal("not built") }
