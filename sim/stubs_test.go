package verifsim

import "testing"

type C17Case struct{}

func (c *C17Case) sample() any { return nil }

func genC17(seed uint64, run int, tier string) *Case { return nil }
func execC17(t *testing.T, c *Case) *Verdict         { return &Verdict{Infra: "not built"} }
func minimiseC17(m *minimiser, cur **Case)           {}
