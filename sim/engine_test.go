package verifsim

import (
	"encoding/base64"
	"fmt"
	"hash/fnv"
	"reflect"
	"runtime"
	"strconv"
	"strings"
	"sync/atomic"
	"testing"
	"testing/synctest"
	"time"
	"unsafe"

	"github.com/verily-src/fhirpath-go/fhirpath"
	"github.com/verily-src/fhirpath-go/fhirpath/compopts"
	"github.com/verily-src/fhirpath-go/fhirpath/evalopts"
	"github.com/verily-src/fhirpath-go/fhirpath/internal/expr"
	"github.com/verily-src/fhirpath-go/fhirpath/internal/parser"
	"github.com/verily-src/fhirpath-go/fhirpath/patch"
	"github.com/verily-src/fhirpath-go/fhirpath/system"
	"github.com/verily-src/fhirpath-go/internal/fhir"
	"github.com/verily-src/fhirpath-go/internal/verifyield"
	"google.golang.org/protobuf/proto"
	"google.golang.org/protobuf/reflect/protoreflect"
	"google.golang.org/protobuf/reflect/protoregistry"
	"google.golang.org/protobuf/types/known/anypb"
)

// ---------------------------------------------------------------------------
// Per-operation context: what the node wrappers and callbacks of one running
// operation record and consult. Owned by exactly one task.

type opCtx struct {
	nodes     int // node entries so far
	failAt    int // k>0: the k-th node entry fails with failErr
	failErr   error
	failFired bool
	trace     uint64 // digest over node entries/exits
	nowSet    bool
	now       time.Time
	nowDiffer bool
	cbCalls   int
	probes    []string
	ticks     int
	yieldsIn  map[string]int
	obs       []cbObs // raw observations of the C17 callbacks
	lockDepth int     // locks held by library code of this operation (instrumented build)
	async     bool    // the library ran part of this operation in goroutines of its own
	parent    *opCtx  // the context this one is merged into (goroutines the library started)
	// the evaluation in progress, for a user function that calls it again (recurse callback)
	selfExpr *fhirpath.Expression
	selfRes  []fhir.Resource
	selfOpts []fhirpath.EvaluateOption
	depth    int
	nestedN  int
	nested   []string // outcome (by value) of every nested evaluation of the same expression
}

// top is the context of the operation itself (contexts of library goroutines are linked to it).
//
//go:norace
func (o *opCtx) top() *opCtx {
	for o.parent != nil {
		o = o.parent
	}
	return o
}

func newOpCtx(failAt int) *opCtx {
	return &opCtx{failAt: failAt, failErr: injected[0], trace: 1469598103934665603}
}

func (o *opCtx) mix(v uint64) {
	o.trace ^= v
	o.trace *= 1099511628211
}

// ---------------------------------------------------------------------------
// The run context: everything one simulated sub-run shares. Exactly one exists
// at a time; node wrappers and callbacks reach it through cur().

type runCtx struct {
	c     *Case
	sc    *sched
	stats *Stats

	in *inputs // the inputs shared by all clients of this sub-run

	rootOp  *opCtx   // operation context while the root executes an operation
	taskOps []*opCtx // operation context of each client task (indexed by task id)

	// goroutines the simulator did not start (the library's own, when it is not instrumented)
	baseG    int   // goroutines alive when the run began
	rootGoid int64 // the goroutine that drives the run
	foreign  atomic.Int32

	abandoned   int    // library goroutines still alive at the end of a scheduler's run
	helperPanic string // first panic raised in a library goroutine
}

// runBubble executes f inside a synctest bubble, in a sub-test of its own: when the race
// detector fires inside the bubble the testing package fails the bubble's T and calls
// FailNow on its parent, which must not abort the worker (it still has to attribute the
// race to the case and write its report).
func runBubble(t *testing.T, f func(t *testing.T)) {
	var pv any
	t.Run("b", func(t *testing.T) {
		defer func() { pv = recover() }()
		synctest.Test(t, f)
	})
	if pv != nil {
		// goroutines the library started and never ended stay parked when the run is over; the
		// bubble reports them as a deadlock once its main goroutine has returned
		if n := abandonedInRun + int(libGoroutinesLoose.Load()); n > 0 && strings.Contains(fmt.Sprint(pv), "blocked goroutines remain") {
			if statsOfRun != nil {
				statsOfRun.probeN("library-goroutines-outlived-the-run", n)
			}
			return
		}
		panic(pv) // re-raised in the caller, which turns it into infrastructure trouble
	}
}

// statsOfRun: the statistics of the run that is executing or has just executed.
var statsOfRun *Stats

// yieldHook is what instrumented library code calls before touching process-wide state.
func yieldHook(site int) {
	r, oc := curOp()
	if r == nil || oc == nil || r.sc == nil {
		return
	}
	if oc.lockDepth > 0 {
		return // never park a task that holds a lock
	}
	if !r.c.Knobs.GYields {
		return
	}
	r.sc.yield(ypGlobal, -1000-site)
}

// lockHook tracks the lock depth of the running operation (instrumented build).
func lockHook(delta int) {
	_, oc := curOp()
	if oc == nil {
		return
	}
	oc.lockDepth += delta
	if oc.lockDepth < 0 {
		oc.lockDepth = 0
	}
}

var theRun *runCtx

//go:norace
func setRun(r *runCtx) {
	if r != nil {
		r.baseG, r.rootGoid = runtime.NumGoroutine(), curGoid()
		abandonedInRun = 0
		libGoroutinesLoose.Store(0)
		statsOfRun = r.stats
	}
	theRun = r
}

// foreignCaller reports whether the calling goroutine is one the simulator does not drive: a
// goroutine the library started itself in a build where such goroutines are not taken over.
// Its node entries pass straight through (no trace, no injected error, no yield point).
//
//go:norace
func (r *runCtx) foreignCaller() bool {
	exp := r.baseG
	sc := r.sc
	if sc != nil {
		exp += int(sc.liveG.Load())
	}
	n := runtime.NumGoroutine()
	if n == exp {
		return false
	}
	g := curGoid()
	legit := g == r.rootGoid
	if !legit && sc != nil {
		if t := sc.cur; t != nil && t.goid == g {
			legit = true
		}
	}
	if legit {
		if n < exp {
			r.baseG -= exp - n // a goroutine from before the run has gone
		}
		return false
	}
	r.foreign.Add(1)
	return true
}

// curOp returns the operation context of whoever is running right now.
//
//go:norace
func curOp() (*runCtx, *opCtx) {
	r := theRun
	if r == nil {
		return nil, nil
	}
	if r.foreignCaller() {
		return nil, nil
	}
	if r.sc != nil {
		if t := r.sc.current(); t != nil {
			if t.id >= len(r.taskOps) {
				return r, nil
			}
			return r, r.taskOps[t.id]
		}
	}
	return r, r.rootOp
}

//go:norace
func (r *runCtx) setTaskOp(id int, o *opCtx) {
	for id >= len(r.taskOps) {
		r.taskOps = append(r.taskOps, nil)
	}
	r.taskOps[id] = o
}

// adoptHelper gives a goroutine the library started an operation context of its own, linked to
// the context of the task that started it: two goroutines never write the same context (the
// hand-offs between them are hidden from the race detector, so shared bookkeeping of the harness
// would be reported as a race of the library). What the goroutine recorded is merged into the
// parent's context when it ends.
//
//go:norace
func (r *runCtx) adoptHelper(parent, child *task) {
	var oc *opCtx
	if parent.id < len(r.taskOps) {
		oc = r.taskOps[parent.id]
	}
	if oc == nil {
		r.setTaskOp(child.id, nil)
		return
	}
	oc.async = true
	co := newOpCtx(0)
	co.parent, co.async = oc, true
	co.nowSet, co.now = oc.nowSet, oc.now
	r.setTaskOp(child.id, co)
}

// helperDone merges what a library goroutine recorded into the context of its parent.
//
//go:norace
func (r *runCtx) helperDone(t *task) {
	if t.id >= len(r.taskOps) {
		return
	}
	co := r.taskOps[t.id]
	if co == nil || co.parent == nil {
		return
	}
	p := co.parent
	p.nodes += co.nodes
	p.cbCalls += co.cbCalls
	p.ticks += co.ticks
	p.probes = append(p.probes, co.probes...)
	p.obs = append(p.obs, co.obs...)
	p.nowDiffer = p.nowDiffer || co.nowDiffer
	if co.nowSet && p.nowSet && (!co.now.Equal(p.now) || co.now.Location() != p.now.Location()) {
		p.nowDiffer = true
	}
	if co.failFired {
		p.failFired = true
	}
	co.parent = nil
}

// Hooks of the instrumented build for goroutines and blocking operations of the library.
func goHook(fn func()) bool {
	r := theRunNoRace()
	if r == nil {
		return false
	}
	if r.sc == nil || !r.sc.spawnHelper(fn) {
		// started by the root outside a scheduler (or by a goroutine that is itself not driven):
		// it runs for real inside the run's bubble
		libGoroutinesLoose.Add(1)
		return false
	}
	return true
}

// libGoroutinesLoose counts goroutines the library started in the current run that the scheduler
// did not take over.
var libGoroutinesLoose atomic.Int32

func blockHook() any {
	r := theRunNoRace()
	if r == nil || r.sc == nil {
		return nil
	}
	tok := r.sc.blocking()
	if tok == nil {
		return nil
	}
	return asyncTok{r.sc, tok}
}

type asyncTok struct {
	sc  *sched
	tok any
}

func unblockHook(tok any) {
	if a, ok := tok.(asyncTok); ok {
		a.sc.unblocked(a.tok)
	}
}

func wrapHook(fn func()) func() {
	r := theRunNoRace()
	if r == nil || r.sc == nil {
		return fn
	}
	return r.sc.wrapTimerFunc(fn)
}

//go:norace
func theRunNoRace() *runCtx { return theRun }

// solo runs f as the only client of a scheduler of its own that follows the reference
// schedule: no switch at any yield point, and when the library blocks in goroutines of its own
// the lowest-numbered runnable one continues. In builds where the library's goroutines are not
// taken over it simply calls f.
func (r *runCtx) solo(oc *opCtx, f func()) error {
	if !asyncBuild() {
		r.setRootOp(oc)
		f()
		r.setRootOp(nil)
		return nil
	}
	sc := newSched(nil, 0, 1<<30)
	sc.canonical, sc.async = true, true
	sc.newTaskOp, sc.taskEnded = r.adoptHelper, r.helperDone
	savedSc, savedOps := r.sc, r.taskOps
	r.sc, r.taskOps = sc, []*opCtx{oc}
	defer func() { r.sc, r.taskOps = savedSc, savedOps }()
	var pv any
	sc.spawn(func(*task) {
		defer func() { pv = recover() }()
		f()
	})
	err := sc.run(nil)
	r.noteAsync(sc)
	if pv != nil {
		panic(pv)
	}
	return err
}

// noteAsync accumulates what a scheduler saw of the library's own goroutines.
func (r *runCtx) noteAsync(sc *sched) {
	if sc.helpers == 0 && sc.extBlocks == 0 {
		return
	}
	st := r.stats
	st.Faults = addN(st.Faults, "library-goroutine-scheduled", sc.helpers)
	st.Faults = addN(st.Faults, "blocking-operation-switch", sc.extBlocks)
	st.Faults = addN(st.Faults, "idle-clock-advance", sc.idleJumps)
	r.abandoned += sc.abandoned
	abandonedInRun += sc.abandoned
	if sc.helperPanic != "" && r.helperPanic == "" {
		r.helperPanic = sc.helperPanic
	}
}

func asyncBuild() bool { return verifyield.Instrumented }

// abandonedInRun counts the goroutines the library started during the current run and that were
// still alive when their scheduler stopped driving them (they stay parked for good).
var abandonedInRun int

// attach / detach put a scheduler in charge of the run's client tasks.
func (r *runCtx) attach(sc *sched) {
	sc.async, sc.newTaskOp, sc.taskEnded = asyncBuild(), r.adoptHelper, r.helperDone
	r.sc = sc
}

func (r *runCtx) detach(sc *sched) {
	r.sc = nil
	r.noteAsync(sc)
}

// bubblePanic turns a panic that escaped a bubble into an infrastructure message - except the
// one the bubble raises when goroutines the library never ended are left parked in it.
func bubblePanic(p any, st *Stats) string {
	if n := abandonedInRun + int(libGoroutinesLoose.Load()); n > 0 && strings.Contains(fmt.Sprint(p), "blocked goroutines remain") {
		st.probeN("library-goroutines-outlived-the-run", n)
		return ""
	}
	return fmt.Sprintf("bubble panic: %v", p)
}

//go:norace
func (r *runCtx) setRootOp(o *opCtx) { r.rootOp = o }

// ---------------------------------------------------------------------------
// Hook H1: every expression node the visitor produces is wrapped in a simNode.

type simNode struct {
	id    int
	kind  string
	inner expr.Expression
}

func (n *simNode) Evaluate(ctx *expr.Context, in system.Collection) (system.Collection, error) {
	r, oc := curOp()
	if oc == nil {
		return n.inner.Evaluate(ctx, in)
	}
	oc.nodes++
	oc.mix(uint64(n.id)<<20 | uint64(len(in)&0xfffff))
	if ctx != nil {
		if !oc.nowSet {
			oc.nowSet, oc.now = true, ctx.Now
		} else if !oc.now.Equal(ctx.Now) || oc.now.Location() != ctx.Now.Location() {
			oc.nowDiffer = true
		}
	}
	if oc.failAt > 0 && oc.nodes == oc.failAt {
		oc.failFired = true
		return nil, oc.failErr
	}
	if r.sc != nil && oc.lockDepth == 0 { // never park a task that holds a library lock
		r.sc.yield(ypNode, n.id)
	}
	out, err := n.inner.Evaluate(ctx, in)
	e := uint64(0)
	if err != nil {
		e = 1
	}
	oc.mix(0x8000000000000000 | uint64(n.id)<<21 | uint64(len(out)&0xfffff)<<1 | e)
	return out, err
}

// compileNodes collects the wrappers created during one Compile call.
var compileNodes []*simNode

func installWrap() {
	compileNodes = nil
	parser.VerifWrap = func(e expr.Expression) expr.Expression {
		n := &simNode{id: len(compileNodes), kind: strings.TrimPrefix(fmt.Sprintf("%T", e), "*expr."), inner: e}
		compileNodes = append(compileNodes, n)
		return n
	}
}

func removeWrap() { parser.VerifWrap = nil }

type compiled struct {
	spec  ProgSpec
	fp    *fhirpath.Expression
	pp    *patch.Expression
	err   error
	panic string
	nodes []*simNode
	tail  []fhirpath.CompileOption // the caller's options behind the window passed to Compile
}

// compile builds the expression for a program spec. Only the root calls it.
func compile(spec ProgSpec, stats *Stats) (c *compiled) {
	c = &compiled{spec: spec}
	opts, oerr := buildCompileOpts(spec.Opts)
	if oerr != nil {
		c.err = oerr
		return c
	}
	installWrap()
	defer func() {
		removeWrap()
		c.nodes = compileNodes
		compileNodes = nil
		if p := recover(); p != nil {
			c.panic = fmt.Sprint(p)
			c.fp, c.pp = nil, nil
		}
	}()
	if stats != nil {
		stats.Compiles++
	}
	// the options are handed over as a window of a longer slice; what lies behind the window
	// belongs to the caller and is checked afterwards (compileTailIntact)
	full := append(append(make([]fhirpath.CompileOption, 0, len(opts)+2), opts...), compileSentinels()...)
	c.tail = full[len(opts):]
	if spec.Patch {
		c.pp, c.err = patch.Compile(spec.Src, full[:len(opts)]...)
	} else {
		c.fp, c.err = fhirpath.Compile(spec.Src, full[:len(opts)]...)
	}
	return c
}

var sentinelCompileOpts []fhirpath.CompileOption

func compileSentinels() []fhirpath.CompileOption {
	if sentinelCompileOpts == nil {
		id := func(in system.Collection) (system.Collection, error) { return in, nil }
		sentinelCompileOpts = []fhirpath.CompileOption{compopts.AddFunction("zsfn0", id), compopts.AddFunction("zsfn1", id)}
	}
	return sentinelCompileOpts
}

// compileTailIntact reports whether the two options of the caller's that sat behind the window
// passed to Compile are still the caller's options.
func (c *compiled) compileTailIntact() bool {
	if len(c.tail) != 2 {
		return true
	}
	// by identity, without calling into the library again (an extra Compile here would itself
	// change the history that other checks are looking at)
	want := compileSentinels()
	for k := 0; k < 2; k++ {
		if ifaceData(c.tail[k]) != ifaceData(want[k]) {
			return false
		}
	}
	return true
}

// ifaceData returns the data word of an interface value. An option is a one-word struct holding
// a func value, so the data word identifies the option value (the closure object).
func ifaceData[T any](v T) unsafe.Pointer {
	return (*[2]unsafe.Pointer)(unsafe.Pointer(&v))[1]
}

func (c *compiled) ok() bool { return c.err == nil && c.panic == "" && (c.fp != nil || c.pp != nil) }

func (c *compiled) kinds() string {
	var b strings.Builder
	for _, n := range c.nodes {
		b.WriteString(n.kind)
		b.WriteByte(',')
	}
	return b.String()
}

// ---------------------------------------------------------------------------
// Callbacks: the simulator is the user. Each catalogue key yields a Go function
// acceptable to compopts.AddFunction (or deliberately not acceptable).

func cbEnter(kind string) (*runCtx, *opCtx) {
	r, oc := curOp()
	if oc != nil {
		oc.cbCalls++
	}
	return r, oc
}

func callback(key string) (any, error) {
	if fn, ok := c17Callback(key); ok {
		return fn, nil
	}
	name, arg, _ := strings.Cut(key, ":")
	switch name {
	case "ident":
		return func(in system.Collection) (system.Collection, error) {
			cbEnter("ident")
			return in, nil
		}, nil
	case "yield":
		return func(in system.Collection) (system.Collection, error) {
			r, oc := cbEnter("yield")
			if r != nil && r.sc != nil && (oc == nil || oc.lockDepth == 0) {
				r.sc.yield(ypCallback, -2)
			}
			return in, nil
		}, nil
	case "tick":
		ms, err := strconv.ParseInt(arg, 10, 64)
		if err != nil {
			return nil, err
		}
		return func(in system.Collection) (system.Collection, error) {
			r, oc := cbEnter("tick")
			if oc != nil {
				oc.ticks++
			}
			// the bubble's clock is an int64 of nanoseconds: many long ticks in one run must not carry
			// it past the representable range (the runtime then dies with "bad g->status in ready")
			if time.Now().Year() < 2150 {
				time.Sleep(time.Duration(ms) * time.Millisecond)
			}
			if r != nil && r.sc != nil && (oc == nil || oc.lockDepth == 0) {
				r.sc.yield(ypCallback, -2)
			}
			return in, nil
		}, nil
	case "reenter":
		// A user function that uses the library itself: it evaluates another compiled expression on
		// what it was handed (or on the first input resource) while the outer evaluation is in
		// progress, and answers its input. What the nested evaluation returns is an observation.
		ensureReenterExpr()
		return func(in system.Collection) (system.Collection, error) {
			r, oc := cbEnter("reenter")
			if reenterExpr == nil || r == nil {
				return in, nil
			}
			var rs []fhir.Resource
			for _, it := range in {
				if x, ok := it.(fhir.Resource); ok {
					rs = append(rs, x)
				}
			}
			if len(rs) == 0 && r.in != nil && len(r.in.resources) > 0 {
				rs = r.in.resources[:1]
			}
			// the nested evaluation is an evaluation of its own: it has its own instant
			var savedSet bool
			var savedNow time.Time
			if oc != nil {
				savedSet, savedNow = oc.nowSet, oc.now
				oc.nowSet = false
			}
			out, err := reenterExpr.Evaluate(rs)
			if oc != nil {
				oc.nowSet, oc.now = savedSet, savedNow
				oc.probes = append(oc.probes, fmt.Sprintf("reenter(%s,%v)", valueDigest(out), err != nil))
			}
			return in, nil
		}, nil
	case "recurse":
		// A user function that calls the very evaluation it is part of: the same compiled expression
		// on the same input with the same options, nested up to a depth of its own choosing (a bounded,
		// legitimate recursion: beyond that depth it is the identity). It answers its input, so every
		// nested evaluation computes what the outermost one computes.
		maxDepth, err := strconv.Atoi(arg)
		if err != nil || maxDepth < 1 {
			return nil, fmt.Errorf("bad recursion depth %q", arg)
		}
		return func(in system.Collection) (system.Collection, error) {
			_, oc := cbEnter("recurse")
			if oc == nil {
				return in, nil
			}
			oc = oc.top()
			if oc.selfExpr == nil || oc.depth >= maxDepth || oc.nestedN >= 24 {
				return in, nil
			}
			oc.depth++
			oc.nestedN++
			savedSet, savedNow := oc.nowSet, oc.now
			oc.nowSet = false
			out, err := oc.selfExpr.Evaluate(oc.selfRes, oc.selfOpts...)
			oc.nowSet, oc.now = savedSet, savedNow
			oc.depth--
			if err != nil {
				oc.nested = append(oc.nested, canonErr(err))
			} else {
				oc.nested = append(oc.nested, "ok:"+valueDigest(out))
			}
			return in, nil
		}, nil
	case "fail":
		k, err := strconv.Atoi(arg)
		if err != nil || k < 0 || k >= len(injected) {
			return nil, fmt.Errorf("bad fail index %q", arg)
		}
		return func(in system.Collection) (system.Collection, error) {
			cbEnter("fail")
			return nil, injected[k]
		}, nil
	case "failkeep": // returns both a collection and an error
		k, err := strconv.Atoi(arg)
		if err != nil || k < 0 || k >= len(injected) {
			return nil, fmt.Errorf("bad fail index %q", arg)
		}
		return func(in system.Collection) (system.Collection, error) {
			cbEnter("failkeep")
			return in, injected[k]
		}, nil
	case "empty":
		return func(in system.Collection) (system.Collection, error) {
			cbEnter("empty")
			return system.Collection{}, nil
		}, nil
	case "nilc":
		return func(in system.Collection) (system.Collection, error) {
			cbEnter("nilc")
			return nil, nil
		}, nil
	case "const": // returns a fixed multi-item collection of system values
		return func(in system.Collection) (system.Collection, error) {
			cbEnter("const")
			return system.Collection{system.Integer(7), system.String("seven"), system.Boolean(true)}, nil
		}, nil
	case "probeS":
		return func(in system.Collection, s system.String) (system.Collection, error) {
			_, oc := cbEnter("probeS")
			if oc != nil {
				oc.probes = append(oc.probes, fmt.Sprintf("probeS(in=%s,%q)", valueDigest(in), string(s)))
			}
			return in, nil
		}, nil
	case "probeI":
		return func(in system.Collection, i system.Integer) (system.Collection, error) {
			_, oc := cbEnter("probeI")
			if oc != nil {
				oc.probes = append(oc.probes, fmt.Sprintf("probeI(in=%s,%d)", valueDigest(in), int32(i)))
			}
			return system.Collection{i}, nil
		}, nil
	}
	return nil, fmt.Errorf("unknown callback %q", key)
}

// reenterExpr is the expression the "reenter" callback evaluates (compiled on first need, by the
// root, with the node wrapper of its own so that the program being compiled keeps its node list).
var reenterExpr *fhirpath.Expression

func ensureReenterExpr() {
	if reenterExpr != nil {
		return
	}
	savedNodes, savedWrap := compileNodes, parser.VerifWrap
	installWrap()
	if e, err := fhirpath.Compile("children().count() + descendants().where($this is id).count()"); err == nil {
		reenterExpr = e
	}
	compileNodes, parser.VerifWrap = savedNodes, savedWrap
}

// valueDigest renders a collection by value (no identities: the isolated reference pass works on
// its own materialisation of the inputs).
func valueDigest(c system.Collection) string {
	var b strings.Builder
	for _, it := range c {
		if m, ok := it.(proto.Message); ok {
			b.WriteString(msgDigest(m))
		} else {
			fmt.Fprintf(&b, "%T(%v)", it, it)
		}
		b.WriteByte(';')
	}
	return fmt.Sprintf("%d:%s", len(c), digest(b.String()))
}

// compileOptCache, when non-nil, makes option VALUES be reused: the same AddFunction(...) /
// WithExperimentalFuncs() value is handed to several Compile calls, the way an application
// keeps a slice of options around. An option value must not remember what an earlier Compile
// did with it. The isolated reference always gets fresh values.
var compileOptCache map[string]fhirpath.CompileOption

func buildCompileOpts(specs []COpt) ([]fhirpath.CompileOption, error) {
	var out []fhirpath.CompileOption
	for _, s := range specs {
		key := s.Kind + "|" + s.Name + "|" + s.Fn
		if compileOptCache != nil {
			if o, ok := compileOptCache[key]; ok {
				out = append(out, o)
				continue
			}
		}
		var o fhirpath.CompileOption
		switch s.Kind {
		case "fn":
			fn, err := callback(s.Fn)
			if err != nil {
				return nil, err
			}
			o = compopts.AddFunction(s.Name, fn)
		case "exp":
			o = compopts.WithExperimentalFuncs()
		case "perm":
			o = compopts.Permissive() //nolint:staticcheck
		default:
			return nil, fmt.Errorf("unknown compile option kind %q", s.Kind)
		}
		if compileOptCache != nil {
			compileOptCache[key] = o
		}
		out = append(out, o)
	}
	return out, nil
}

// ---------------------------------------------------------------------------
// Resources, values, variables.

func decodeMessage(rs *ResSpec) (proto.Message, error) {
	mt, err := protoregistry.GlobalTypes.FindMessageByName(protoreflect.FullName(rs.Type))
	if err != nil {
		return nil, fmt.Errorf("unknown message type %q: %w", rs.Type, err)
	}
	b, err := base64.StdEncoding.DecodeString(rs.B64)
	if err != nil {
		return nil, err
	}
	m := mt.New().Interface()
	if err := proto.Unmarshal(b, m); err != nil {
		return nil, err
	}
	return m, nil
}

func encodeMessage(m proto.Message) ResSpec {
	return ResSpec{
		Type: string(m.ProtoReflect().Descriptor().FullName()),
		B64:  base64.StdEncoding.EncodeToString(msgBytes(m)),
	}
}

func buildSys(v *SysVal) (system.Any, error) {
	switch v.T {
	case "String":
		return system.String(v.S), nil
	case "Integer":
		return system.ParseInteger(v.S)
	case "Decimal":
		return system.ParseDecimal(v.S)
	case "Boolean":
		return system.ParseBoolean(v.S)
	case "Date":
		return system.ParseDate(v.S)
	case "DateTime":
		return system.ParseDateTime(v.S)
	case "Time":
		return system.ParseTime(v.S)
	case "Quantity":
		n, u, _ := strings.Cut(v.S, "|")
		return system.ParseQuantity(n, u)
	}
	return nil, fmt.Errorf("unknown system type %q", v.T)
}

type sentinelT struct{ n int }

// sentinelItem is what spare capacity of caller-owned collections is filled with.
func sentinelItem(varIdx, i int) any { return &sentinelT{varIdx*1000 + i} }

type badStruct struct{ X int }

// inputs is one materialisation of a case's resources and variable values.
type inputs struct {
	resources []fhir.Resource
	nodeIdx   map[proto.Message]nodeRef
	resNodes  [][]proto.Message
	vars      []any
	// callerMsgs: every message the caller supplied through an environment value that is not an
	// element of an input resource (e.g. a ContainedResource wrapper it built itself)
	callerMsgs map[proto.Message]bool
	// evalOptCache, when non-nil, makes EnvVariable option values be reused between Evaluate calls
	evalOptCache map[string]fhirpath.EvaluateOption
}

// newEvaluation: an operation that calls Evaluate several times starts a new "one instant" window
// for each call.
func newEvaluation(oc *opCtx) {
	if oc != nil {
		oc.nowSet = false
	}
}

// aliasesEnv reports whether the collection shares its backing array with one of the caller's
// environment collections.
func (r *inputs) aliasesEnv(c system.Collection) bool {
	if cap(c) == 0 {
		return false
	}
	p := uintptr(unsafe.Pointer(&c[:1][0]))
	for _, v := range r.vars {
		ev, ok := v.(system.Collection)
		if !ok || cap(ev) == 0 {
			continue
		}
		lo := uintptr(unsafe.Pointer(&ev[:1][0]))
		hi := lo + uintptr(cap(ev))*unsafe.Sizeof(ev[:1][0])
		if p >= lo && p < hi {
			return true
		}
	}
	return false
}

func (r *inputs) buildVar(i int, vs *VarSpec, built []any) (any, error) {
	switch vs.Kind {
	case "sys":
		return buildSys(vs.Sys)
	case "res":
		if vs.Res < 0 || vs.Res >= len(r.resources) {
			return nil, fmt.Errorf("var %d: bad resource index", i)
		}
		return r.resources[vs.Res], nil
	case "node":
		if vs.Res < 0 || vs.Res >= len(r.resources) {
			return nil, fmt.Errorf("var %d: bad resource index", i)
		}
		nodes := r.resNodes[vs.Res]
		return nodes[((vs.Node%len(nodes))+len(nodes))%len(nodes)], nil
	case "cr":
		// a ContainedResource wrapper around an input resource (what Bundle.entry.resource holds)
		if vs.Res < 0 || vs.Res >= len(r.resources) {
			return nil, fmt.Errorf("var %d: bad resource index", i)
		}
		cr := newMessage(findDesc("ContainedResource"))
		fs := cr.Descriptor().Fields()
		for k := 0; k < fs.Len(); k++ {
			if fs.Get(k).Kind() == protoreflect.MessageKind && fs.Get(k).Message() == r.resources[vs.Res].ProtoReflect().Descriptor() {
				cr.Set(fs.Get(k), protoreflect.ValueOfMessage(r.resources[vs.Res].ProtoReflect()))
			}
		}
		return cr.Interface(), nil
	case "coll":
		c := make(system.Collection, 0, len(vs.Items)+vs.Spare)
		for j := range vs.Items {
			it, err := r.buildVar(i, &vs.Items[j], built)
			if err != nil {
				return nil, err
			}
			c = append(c, it)
		}
		full := c[:cap(c)]
		for j := len(c); j < cap(c); j++ {
			full[j] = sentinelItem(i, j)
		}
		return c, nil
	case "sub":
		if vs.SubOf < 0 || vs.SubOf >= i {
			return nil, fmt.Errorf("var %d: sub_of must name an earlier var", i)
		}
		base, ok := built[vs.SubOf].(system.Collection)
		if !ok {
			return nil, fmt.Errorf("var %d: sub_of is not a collection", i)
		}
		f, t := clamp(vs.From, 0, len(base)), clamp(vs.To, 0, len(base))
		if t < f {
			t = f
		}
		return base[f:t], nil
	case "bad":
		switch vs.Bad {
		case "int":
			return 42, nil
		case "string":
			return "plain go string", nil
		case "struct":
			return badStruct{1}, nil
		case "ptr":
			return &badStruct{2}, nil
		case "slice":
			return []any{system.Integer(1)}, nil
		case "float":
			return 3.5, nil
		}
		return nil, fmt.Errorf("var %d: unknown bad kind %q", i, vs.Bad)
	case "nil":
		return nil, nil
	}
	return nil, fmt.Errorf("var %d: unknown kind %q", i, vs.Kind)
}

func clamp(v, lo, hi int) int {
	if v < lo {
		return lo
	}
	if v > hi {
		return hi
	}
	return v
}

func buildInputs(c *Case) (*inputs, error) {
	r := &inputs{nodeIdx: map[proto.Message]nodeRef{}}
	for i := range c.Resources {
		m, err := decodeMessage(&c.Resources[i])
		if err != nil {
			return nil, err
		}
		res, ok := m.(fhir.Resource)
		if !ok {
			return nil, fmt.Errorf("resource %d (%s) is not a fhir.Resource", i, c.Resources[i].Type)
		}
		r.resources = append(r.resources, res)
		r.resNodes = append(r.resNodes, indexNodes(r.nodeIdx, i, res))
	}
	r.vars = make([]any, len(c.Vars))
	for i := range c.Vars {
		v, err := r.buildVar(i, &c.Vars[i], r.vars)
		if err != nil {
			return nil, err
		}
		r.vars[i] = v
	}
	r.callerMsgs = map[proto.Message]bool{}
	var note func(v any)
	note = func(v any) {
		switch x := v.(type) {
		case system.Collection:
			for _, it := range x {
				note(it)
			}
		case proto.Message:
			if _, isNode := r.nodeIdx[x]; !isNode {
				r.callerMsgs[x] = true
			}
		}
	}
	for _, v := range r.vars {
		note(v)
	}
	return r, nil
}

func (r *inputs) buildEvalOpts(specs []EOpt, entryOverride *time.Time) ([]fhirpath.EvaluateOption, bool, error) {
	var out []fhirpath.EvaluateOption
	hasTime := false
	for _, s := range specs {
		switch s.Kind {
		case "var":
			if s.Var < 0 || s.Var >= len(r.vars) {
				return nil, false, fmt.Errorf("bad var index %d", s.Var)
			}
			if r.evalOptCache != nil {
				// the same option value for several Evaluate calls (see compileOptCache); the cache is
				// filled by the root before the clients start (prepareEvalOpts) and only read here
				if o, ok := r.evalOptCache[fmt.Sprintf("%s|%d", s.Name, s.Var)]; ok {
					out = append(out, o)
					continue
				}
			}
			out = append(out, evalopts.EnvVariable(s.Name, r.vars[s.Var]))
		case "time":
			hasTime = true
			t := time.UnixMilli(s.TimeMs)
			if s.OffMin == 0 {
				t = t.UTC()
			} else {
				t = t.In(time.FixedZone("", s.OffMin*60))
			}
			out = append(out, evalopts.OverrideTime(t))
		default:
			return nil, false, fmt.Errorf("unknown evaluate option kind %q", s.Kind)
		}
	}
	if !hasTime && entryOverride != nil {
		out = append(out, evalopts.OverrideTime(*entryOverride))
	}
	return out, hasTime, nil
}

// prepareEvalOpts builds, once, the option values that the operations of a run will share.
func (r *inputs) prepareEvalOpts(lists ...[]EOpt) {
	r.evalOptCache = map[string]fhirpath.EvaluateOption{}
	for _, l := range lists {
		for _, s := range l {
			if s.Kind != "var" || s.Var < 0 || s.Var >= len(r.vars) {
				continue
			}
			key := fmt.Sprintf("%s|%d", s.Name, s.Var)
			if _, ok := r.evalOptCache[key]; !ok {
				r.evalOptCache[key] = evalopts.EnvVariable(s.Name, r.vars[s.Var])
			}
		}
	}
}

// ---------------------------------------------------------------------------
// Executing one operation.

type opResult struct {
	Outcome string // canonical outcome (full text)
	Trace   uint64
	Nodes   int
	Entry   time.Time // clock at entry (UTC)
	Exit    time.Time // clock when the call returned
	CtxNow  time.Time // the instant the evaluation context carried (first node entry)
	NowSet  bool
	HasTime bool // the op carried its own OverrideTime
	NowBad  bool // ctx.Now was not one value across the node entries of this op
	Async   bool // the library ran part of the operation in goroutines of its own
	Repeat  string // evalmut: the repeated call after the caller edited its result differs
	Nested  []string // outcomes (by value) of nested evaluations of the same expression (recurse callback)

	finalByValue string

	probeList []string
	Probes  string
	Fired   bool   // node-error fault fired
	After   string // patch: digest of the private resource after the operation
	Ticks   int
	raw     system.Collection // the collection Evaluate returned, kept to see whether it changes later
	Stale   string            // evalmut: the second evaluation did not see the caller's change
	OptsTail string           // the library wrote behind the window of evaluate options it was handed
}

// two options of the caller's that sit behind every window of evaluate options (never applied);
// built at package initialisation, only read afterwards
var evalSentinels = [2]fhirpath.EvaluateOption{evalopts.EnvVariable("zs0", system.String("s0")), evalopts.EnvVariable("zs1", system.String("s1"))}

func hashStr(s string) uint64 {
	h := fnv.New64a()
	h.Write([]byte(s))
	return h.Sum64()
}

func pickResources(op *Op, from []fhir.Resource) []fhir.Resource {
	var in []fhir.Resource
	for _, i := range op.Res {
		if i >= 0 && i < len(from) {
			in = append(in, from[i])
		}
	}
	return in
}

// execOp runs op with the given compiled program on the given resources. oc is
// the operation context (already installed as the current one by the caller).
// idx is the node index used to render identities of result items.
func execOp(op *Op, oc *opCtx, p *compiled, in0 *inputs, entryOverride *time.Time) (res opResult) {
	resources, idx := in0.resources, in0.nodeIdx
	res.Entry = time.Now().UTC()
	defer func() {
		if pv := recover(); pv != nil {
			res.Outcome = "panic(" + maskPtr(fmt.Sprint(pv)) + ")"
		}
		res.Trace, res.Nodes, res.NowBad, res.Fired, res.Ticks = oc.trace, oc.nodes, oc.nowDiffer, oc.failFired, oc.ticks
		res.Async = oc.async
		res.Exit, res.CtxNow, res.NowSet = time.Now().UTC(), oc.now, oc.nowSet
		res.Probes = strings.Join(oc.probes, ";")
		res.probeList = oc.probes
	}()
	if !p.ok() {
		res.Outcome = "uncompiled"
		return res
	}
	opts, hasTime, err := in0.buildEvalOpts(op.Opts, entryOverride)
	if err != nil {
		res.Outcome = "harness-error(" + err.Error() + ")"
		return res
	}
	res.HasTime = hasTime
	// the options are handed over as a window of a longer slice: what lies behind the window is the
	// caller's (an application that keeps `all := []Option{...}` and passes all[:n]...)
	full := append(append(make([]fhirpath.EvaluateOption, 0, len(opts)+2), opts...), evalSentinels[0], evalSentinels[1])
	opts = full[:len(opts):len(full)]
	defer func() {
		for k := 0; k < 2; k++ {
			if ifaceData(full[len(opts)+k]) != ifaceData(evalSentinels[k]) {
				res.OptsTail = fmt.Sprintf("the caller's option slice was written to behind the %d options it passed (slot %d no longer holds the caller's option)", len(opts), k)
				break
			}
		}
	}()
	if op.Kind == "patch" {
		return execPatch(op, p, resources, opts, res)
	}
	if p.fp == nil {
		res.Outcome = "uncompiled"
		return res
	}
	in := pickResources(op, resources)
	switch op.Kind {
	case "eval":
		if oc != nil {
			oc.selfExpr, oc.selfRes, oc.selfOpts = p.fp, in, opts
		}
		c, err := p.fp.Evaluate(in, opts...)
		if err != nil {
			res.Outcome = canonErr(err)
			if c != nil {
				res.Outcome += "+" + canonCollection(idx, c)
			}
			res.finalByValue = canonErr(err)
		} else {
			res.Outcome = canonCollection(idx, c)
			res.raw = c
			res.finalByValue = "ok:" + valueDigest(c)
		}
		if oc != nil {
			oc.selfExpr = nil
			res.Nested = oc.nested
		}
	case "bool":
		v, err := p.fp.EvaluateAsBool(in, opts...)
		if err != nil {
			res.Outcome = canonErr(err)
		} else {
			res.Outcome = fmt.Sprintf("bool(%v)", v)
		}
	case "string":
		v, err := p.fp.EvaluateAsString(in, opts...)
		if err != nil {
			res.Outcome = canonErr(err)
		} else {
			res.Outcome = fmt.Sprintf("string(%q)", v)
		}
	case "int":
		v, err := p.fp.EvaluateAsInt32(in, opts...)
		if err != nil {
			res.Outcome = canonErr(err)
		} else {
			res.Outcome = fmt.Sprintf("int(%d)", v)
		}
	case "evalmut":
		// evaluate, let the caller change its (private) input in place, evaluate again: the second
		// result is a function of the input as it is now
		priv := make([]fhir.Resource, len(in))
		for i, r := range in {
			priv[i] = proto.Clone(r).(fhir.Resource)
		}
		pidx := map[proto.Message]nodeRef{}
		for i, r := range priv {
			indexNodes(pidx, i, r)
		}
		c1, err1 := p.fp.Evaluate(priv, opts...)
		o1 := ""
		if err1 != nil {
			o1 = canonErr(err1)
		} else {
			o1 = canonCollection(pidx, c1)
		}
		// the caller edits the copies it was given (messages that are not elements of its input) ...
		if err1 == nil {
			// (elements of the shared inputs can come back through environment variables: they are
			// input too, and other clients read them)
			all := make(map[proto.Message]nodeRef, len(pidx)+len(in0.nodeIdx)+len(in0.callerMsgs))
			for k, v := range pidx {
				all[k] = v
			}
			for k, v := range in0.nodeIdx {
				all[k] = v
			}
			for k := range in0.callerMsgs {
				all[k] = nodeRef{}
			}
			for _, it := range c1 {
				if m, ok := it.(proto.Message); ok {
					if _, isNode := all[m]; !isNode {
						scribble(m.ProtoReflect(), all)
					}
				}
			}
			// ... and the collection itself, which is the caller's from the moment it is returned
			// (unless it is one of the caller's own environment collections, which other clients of
			// this run read). Nothing else changed: the same call again gives the same result.
			if !in0.aliasesEnv(c1) {
				t0 := time.Now()
				for i := range c1 {
					c1[i] = system.String("edited-by-caller")
				}
				newEvaluation(oc)
				c1b, err1b := p.fp.Evaluate(priv, opts...)
				o1b := ""
				if err1b != nil {
					o1b = canonErr(err1b)
				} else {
					o1b = canonCollection(pidx, c1b)
				}
				injectedNow := oc != nil && oc.failFired
				if o1b != o1 && !injectedNow && (!timeDependent(p.spec.Src) || (time.Now().Equal(t0) && res.Entry.Equal(t0))) {
					res.Repeat = fmt.Sprintf("the caller overwrote the items of the collection it got back; the same Evaluate call again (same input, same options) gives %s, the first time it gave %s", short(o1b, 250), short(o1, 250))
				}
			}
		}
		// ... and its input
		for _, r := range priv {
			callerMutates(r)
		}
		pidx = map[proto.Message]nodeRef{}
		for i, r := range priv {
			indexNodes(pidx, i, r)
		}
		newEvaluation(oc)
		t2 := time.Now()
		c2, err2 := p.fp.Evaluate(priv, opts...)
		o2 := ""
		if err2 != nil {
			o2 = canonErr(err2)
		} else {
			o2 = canonCollection(pidx, c2)
		}
		res.Outcome = "first{" + o1 + "} after-caller-change{" + o2 + "}"
		// independent of any reference run: the changed input evaluated through brand-new objects
		// (a deep copy) must give the same values as the changed input itself
		fresh := make([]fhir.Resource, len(priv))
		for i, r := range priv {
			fresh[i] = proto.Clone(r).(fhir.Resource)
		}
		newEvaluation(oc)
		c3, err3 := p.fp.Evaluate(fresh, opts...)
		comparable := !(oc != nil && oc.failFired) && (!timeDependent(p.spec.Src) || time.Now().Equal(t2))
		if comparable && ((err2 == nil) != (err3 == nil) || (err2 == nil && valueDigest(c2) != valueDigest(c3))) {
			res.Stale = fmt.Sprintf("after the caller changed its input, evaluating that input gives %s but evaluating a deep copy of it gives %s", short(o2, 200), short(fmt.Sprintf("%v %v", valueDigest(c3), err3), 200))
		}
	case "str":
		res.Outcome = "str(" + p.fp.String() + ")"
	default:
		res.Outcome = "harness-error(unknown op kind " + op.Kind + ")"
	}
	return res
}

// callerMutates changes a resource the way its owner may between two evaluations: the id is
// replaced, and every contained entry is unpacked, changed and marshalled back into the same Any.
func callerMutates(r fhir.Resource) {
	m := r.ProtoReflect()
	setID := func(x protoreflect.Message, v string) {
		fd := x.Descriptor().Fields().ByName("id")
		if fd == nil || fd.Kind() != protoreflect.MessageKind {
			return
		}
		id := x.Mutable(fd).Message()
		if vf := id.Descriptor().Fields().ByName("value"); vf != nil && vf.Kind() == protoreflect.StringKind {
			id.Set(vf, protoreflect.ValueOfString(v))
		}
	}
	setID(m, "changed-by-caller")
	cf := m.Descriptor().Fields().ByName("contained")
	if cf == nil || !cf.IsList() {
		return
	}
	l := m.Get(cf).List()
	for i := 0; i < l.Len(); i++ {
		a, ok := l.Get(i).Message().Interface().(*anypb.Any)
		if !ok {
			continue
		}
		cr := newMessage(findDesc("ContainedResource"))
		if a.UnmarshalTo(cr.Interface()) != nil {
			continue
		}
		if _, inner := wrapperAlt(cr); inner != nil {
			setID(inner, fmt.Sprintf("contained-%d-changed", i))
			_ = a.MarshalFrom(cr.Interface())
		}
	}
}

// scribble overwrites the string values inside a message the caller was handed as a result
// (never anything that is an element of the input).
func scribble(m protoreflect.Message, input map[proto.Message]nodeRef) {
	walkMessages(m, func(x protoreflect.Message) {
		if _, isNode := input[x.Interface()]; isNode {
			return
		}
		if vf := x.Descriptor().Fields().ByName("value"); vf != nil && vf.Kind() == protoreflect.StringKind && isPrimitiveDesc(x.Descriptor()) {
			x.Set(vf, protoreflect.ValueOfString("edited-by-the-caller"))
		}
	})
}

func execPatch(op *Op, p *compiled, resources []fhir.Resource, opts []fhirpath.EvaluateOption, res opResult) opResult {
	if p.pp == nil {
		res.Outcome = "uncompiled"
		return res
	}
	in := pickResources(op, resources)
	if len(in) != 1 {
		res.Outcome = "harness-error(patch needs one resource)"
		return res
	}
	target := proto.Clone(in[0]).(fhir.Resource) // private to this operation
	var value fhir.Base
	if op.Value != nil {
		m, err := decodeMessage(op.Value)
		if err != nil {
			res.Outcome = "harness-error(" + err.Error() + ")"
			return res
		}
		value, _ = m.(fhir.Base)
	}
	var err error
	func() {
		defer func() {
			if pv := recover(); pv != nil {
				err = fmt.Errorf("panic: %v", pv)
			}
		}()
		switch op.PatchOp {
		case "add":
			err = p.pp.Add(target, op.Name, value, opts...)
		case "insert":
			err = p.pp.Insert(target, value, op.Index, opts...)
		case "delete":
			err = p.pp.Delete(target, opts...)
		case "replace":
			err = p.pp.Replace(target, value, opts...)
		case "move":
			err = p.pp.Move(target, op.Index, op.Index+1, opts...)
		default:
			err = fmt.Errorf("harness: unknown patch op %q", op.PatchOp)
		}
	}()
	if err != nil {
		res.Outcome = canonErr(err)
	} else {
		res.Outcome = "patched"
	}
	res.After = msgDigest(target)
	res.Outcome += "|after=" + res.After
	return res
}

var _ = reflect.TypeOf
