//go:build race

package verifsim

import "runtime"

const raceEnabled = true

func raceDisable()    { runtime.RaceDisable() }
func raceEnable()     { runtime.RaceEnable() }
func raceErrors() int { return runtime.RaceErrors() }
