package verifsim

// Mode C17: environment variables and custom functions behave as declared. The simulator
// is the user: its callbacks observe what they are invoked with, return what the case says
// and fail on demand; options are applied as sequences against the two registries (the
// per-Compile function table, the per-Evaluate constant map) and compared with a small
// reference model of those registries. Evaluations run as clients under the scheduler,
// with other clients binding the same names to other values.

import (
	"errors"
	"fmt"
	"strings"
	"testing"
	"time"

	dtpb "github.com/google/fhir/go/proto/google/fhir/proto/r4/core/datatypes_go_proto"
	"github.com/verily-src/fhirpath-go/fhirpath"
	"github.com/verily-src/fhirpath-go/fhirpath/compopts"
	"github.com/verily-src/fhirpath-go/fhirpath/evalopts"
	"github.com/verily-src/fhirpath-go/fhirpath/system"
	"github.com/verily-src/fhirpath-go/internal/fhir"
	"google.golang.org/protobuf/proto"
	"google.golang.org/protobuf/reflect/protoreflect"
)

const ucumURL = "http://unitsofmeasure.org" // from the FHIRPath specification (environment variable %ucum)

type C17Compile struct {
	Src   string `json:"src"`
	Opts  []COpt `json:"opts,omitempty"`
	Patch bool   `json:"patch,omitempty"`
	Note  string `json:"note,omitempty"`
	// WantFail: the source itself must not compile even with valid options (wrong argument count)
	WantFail bool `json:"want_fail,omitempty"`
}

type C17Op struct {
	Tmpl  string `json:"tmpl"`
	Src   string `json:"src"`
	COpts []COpt `json:"copts,omitempty"`
	Res   []int  `json:"res,omitempty"`
	Opts  []EOpt `json:"opts,omitempty"`
	Name  string `json:"name,omitempty"`  // the variable under test
	Field string `json:"field,omitempty"` // proto name of the top-level list field the template iterates over
	Arg   string `json:"arg,omitempty"`   // argument kind for call templates
	K     int    `json:"k,omitempty"`
}

type C17Case struct {
	Compiles []C17Compile `json:"compiles,omitempty"`
	Clients  [][]C17Op    `json:"clients,omitempty"`
	// how many lists of the exhaustively enumerated slice this case carries
	EnumEval    int `json:"enum_eval,omitempty"`
	EnumCompile int `json:"enum_compile,omitempty"`
}

func (c *C17Case) sample() any {
	var out []string
	for _, cp := range c.Compiles {
		var o []string
		for _, x := range cp.Opts {
			o = append(o, x.Kind+":"+x.Name+":"+x.Fn)
		}
		out = append(out, fmt.Sprintf("compile(%q,[%s])", short(cp.Src, 40), strings.Join(o, " ")))
		if len(out) > 6 {
			break
		}
	}
	for _, cl := range c.Clients {
		var b strings.Builder
		for _, op := range cl {
			fmt.Fprintf(&b, "%s(%q,%d opts) ", op.Tmpl, short(op.Src, 50), len(op.Opts))
		}
		out = append(out, strings.TrimSpace(b.String()))
	}
	return out
}

// ---------------------------------------------------------------------------
// Observing callbacks.

type cbObs struct {
	fn   string
	in   system.Collection
	args []any
}

func observe(fn string, in system.Collection, args ...any) *opCtx {
	_, oc := cbEnter(fn)
	if oc != nil {
		// a callback invoked from a goroutine the library started belongs to the same operation:
		// invocations are counted per operation
		oc = oc.top()
		oc.obs = append(oc.obs, cbObs{fn: fn, in: in, args: args})
	}
	return oc
}

type concreteErr struct{}

func (*concreteErr) Error() string { return "concrete" }

// c17Callback returns the Go function for a catalogue key of this mode (nil: not one of them).
// cbRecv: user functions are often bound method values (svc.Lookup): one code pointer for
// every receiver, the receiver travelling in the closure.
type cbRecv struct{ tag string }

func (c *cbRecv) Tag(in system.Collection) (system.Collection, error) {
	observe("method", in)
	return system.Collection{system.String(c.tag)}, nil
}

func (c cbRecv) TagV(in system.Collection) (system.Collection, error) {
	observe("methodv", in)
	return system.Collection{system.String(c.tag)}, nil
}

// declaredTag is a plain top-level function (no closure at all).
func declaredTag(in system.Collection) (system.Collection, error) {
	observe("declared", in)
	return system.Collection{system.String("declared")}, nil
}

func c17Callback(key string) (any, bool) {
	name, arg, _ := strings.Cut(key, ":")
	switch name {
	case "method": // bound method value, pointer receiver
		return (&cbRecv{tag: arg}).Tag, true
	case "methodv": // bound method value, value receiver
		return cbRecv{tag: arg}.TagV, true
	case "declared":
		return declaredTag, true
	case "obs0":
		return func(in system.Collection) (system.Collection, error) { observe("obs0", in); return in, nil }, true
	case "obsRetS": // observes, answers the String "abc"
		return func(in system.Collection) (system.Collection, error) {
			observe("obsRetS", in)
			return system.Collection{system.String("abc")}, nil
		}, true
	case "clobber": // a badly behaved callback: overwrites the first item of the collection it is handed
		return func(in system.Collection) (system.Collection, error) {
			observe("clobber", in)
			if len(in) > 0 {
				in[0] = system.String("clobbered")
			}
			return system.Collection{system.Boolean(true)}, nil
		}, true
	case "failpartial": // k-th invocation: a collection TOGETHER WITH an error that iterating functions tolerate
		k := 1
		fmt.Sscanf(arg, "%d", &k)
		return func(in system.Collection) (system.Collection, error) {
			oc := observe("failpartial", in)
			n := 0
			if oc != nil {
				for _, o := range oc.obs {
					if o.fn == "failpartial" {
						n++
					}
				}
			}
			if n == k {
				return system.Collection{system.String("PARTIAL")}, fmt.Errorf("%w: raised by a custom function", fhirpath.ErrInvalidField)
			}
			return system.Collection{system.String("tag")}, nil
		}, true
	case "obsT": // observes, answers true
		return func(in system.Collection) (system.Collection, error) {
			observe("obsT", in)
			return system.Collection{system.Boolean(true)}, nil
		}, true
	case "obsS":
		return func(in system.Collection, s system.String) (system.Collection, error) {
			observe("obsS", in, s)
			return system.Collection{s}, nil
		}, true
	case "obsI":
		return func(in system.Collection, i system.Integer) (system.Collection, error) {
			observe("obsI", in, i)
			return system.Collection{i}, nil
		}, true
	case "obsH":
		return func(in system.Collection, h *dtpb.HumanName) (system.Collection, error) {
			observe("obsH", in, h)
			return system.Collection{h}, nil
		}, true
	case "obsAny":
		return func(in system.Collection, a any) (system.Collection, error) {
			observe("obsAny", in, a)
			return system.Collection{a}, nil
		}, true
	case "obsSI":
		return func(in system.Collection, s system.String, i system.Integer) (system.Collection, error) {
			observe("obsSI", in, s, i)
			return system.Collection{i, s}, nil
		}, true
	case "failat": // true until the k-th invocation of this operation, which fails
		k := 1
		fmt.Sscanf(arg, "%d", &k)
		return func(in system.Collection) (system.Collection, error) {
			oc := observe("failat", in)
			n := 0
			if oc != nil {
				for _, o := range oc.obs {
					if o.fn == "failat" {
						n++
					}
				}
			}
			if n == k {
				return nil, injected[3]
			}
			return system.Collection{system.Boolean(true)}, nil
		}, true
	case "badsig":
		switch arg {
		case "int":
			return 42, true
		case "string":
			return "not a function", true
		case "nil":
			return nil, true
		case "noparams":
			return func() (system.Collection, error) { return nil, nil }, true
		case "firstparam":
			return func(s system.String) (system.Collection, error) { return nil, nil }, true
		case "oneresult":
			return func(in system.Collection) system.Collection { return in }, true
		case "secondresult":
			return func(in system.Collection) (system.Collection, string) { return in, "" }, true
		case "firstresult":
			return func(in system.Collection) (system.String, error) { return "", nil }, true
		case "threeresults":
			return func(in system.Collection) (system.Collection, error, int) { return in, nil, 0 }, true
		case "threeresults-errlast": // exactly (Collection, error) is the contract: an extra result in between is a bad signature
			return func(in system.Collection) (system.Collection, system.Boolean, error) {
				return in, true, injected[2]
			}, true
		case "tworesults-twice": // (Collection, error, error)
			return func(in system.Collection) (system.Collection, error, error) { return in, nil, injected[2] }, true
		case "fourresults":
			return func(in system.Collection) (system.Collection, system.Collection, int, error) { return in, in, 0, injected[2] }, true
		case "variadic-results-ok-params": // variadic parameters are outside the fixed-list contract
			return func(in system.Collection, more ...system.String) (system.Collection, error) { return in, nil }, true
		case "noresults":
			return func(in system.Collection) {}, true
		case "concreteerr": // a concrete type that implements error is not the error interface
			return func(in system.Collection) (system.Collection, *concreteErr) { return in, nil }, true
		}
	}
	return nil, false
}

// ---------------------------------------------------------------------------
// Reference model of the evaluate-time registry.

func supportedValue(v any) bool {
	switch x := v.(type) {
	case nil:
		return false
	case system.Collection:
		for _, it := range x {
			if !supportedValue(it) {
				return false
			}
		}
		return true
	case fhir.Base:
		return true
	case system.Any:
		return true
	}
	return false
}

type evalModel struct {
	fails       bool
	failed      []int           // indices of failed options
	unsupported map[int]bool    // option i has an unsupported value
	exists      map[int]bool    // option i names an existing constant
	bound       map[string]any  // names bound by successful options
	predefined  map[string]bool // context, ucum
}

func modelEvalOpts(in *inputs, opts []EOpt) evalModel {
	m := evalModel{unsupported: map[int]bool{}, exists: map[int]bool{}, bound: map[string]any{}, predefined: map[string]bool{"context": true, "ucum": true}}
	for i, o := range opts {
		if o.Kind != "var" {
			continue
		}
		v := in.vars[o.Var]
		_, dup := m.bound[o.Name]
		dup = dup || m.predefined[o.Name]
		bad := !supportedValue(v)
		if bad {
			m.unsupported[i] = true
		}
		if dup {
			m.exists[i] = true
		}
		if bad || dup {
			m.fails = true
			m.failed = append(m.failed, i)
			continue
		}
		m.bound[o.Name] = v
	}
	return m
}

func splice(v any) []any {
	if c, ok := v.(system.Collection); ok {
		return append([]any(nil), c...)
	}
	return []any{v}
}

func sameItems(got system.Collection, want []any) (bool, string) {
	if len(got) != len(want) {
		return false, fmt.Sprintf("%d items, expected %d", len(got), len(want))
	}
	for i := range want {
		if !sameItem(got[i], want[i]) {
			return false, fmt.Sprintf("item %d is %T(%v), expected %T(%v)", i, got[i], got[i], want[i], want[i])
		}
	}
	return true, ""
}

// ---------------------------------------------------------------------------

type c17Exec struct {
	c     *Case
	v     *Verdict
	progs map[string]*compiled
	r     *runCtx
	in    *inputs
	// two options of the caller's that sit behind every option window, and programs that read them back
	sentinelOpts [2]fhirpath.EvaluateOption
	sentinelProg [2]*compiled
}

func (e *c17Exec) violate(oracle, class, detail string) {
	e.v.Violations = append(e.v.Violations, Violation{Property: "C17", Oracle: oracle, Class: class, Detail: short(detail, 1800)})
}

// listItems returns the entries of the top-level list field of res (the input's own nodes).
func listItems(res proto.Message, field string) []any {
	r := res.ProtoReflect()
	fd := r.Descriptor().Fields().ByName(protoreflect.Name(field))
	if fd == nil || !fd.IsList() {
		return nil
	}
	var out []any
	l := r.Get(fd).List()
	for i := 0; i < l.Len(); i++ {
		out = append(out, l.Get(i).Message().Interface())
	}
	return out
}

func (e *c17Exec) checkCompile(i int, cp *C17Compile) {
	st := &e.v.Stats
	wantFail := modelOptsFail(cp.Opts, &processTables) || cp.WantFail
	p := compile(ProgSpec{Src: cp.Src, Opts: cp.Opts, Patch: cp.Patch}, st)
	where := fmt.Sprintf("compile %d: Compile(%q, %+v) [%s]", i, cp.Src, cp.Opts, cp.Note)
	if p.panic != "" {
		return // totality is C01's subject
	}
	st.probe("compile-list-checked")
	if !p.compileTailIntact() {
		e.violate("option-model", "caller-options-overwritten", where+": Compile wrote into the caller's option slice behind the options it was given")
	}
	if wantFail {
		st.fault("option-fail")
		if p.err == nil {
			e.violate("option-model", "compile-accepted:"+cp.Note, where+": Compile succeeded although the model says it must fail (existing or built-in name, bad signature, or wrong argument count)")
		} else if p.fp != nil || p.pp != nil {
			e.violate("option-model", "compile-returned-expression", where+": Compile failed but returned an expression")
		}
		return
	}
	if p.err != nil {
		e.violate("option-model", "compile-rejected:"+cp.Note, where+": Compile failed although every option is valid: "+p.err.Error())
		return
	}
	// every name registered by the list resolves in this expression
	for _, o := range cp.Opts {
		if o.Kind != "fn" {
			continue
		}
		switch o.Fn {
		case "obsS", "obsI", "obsH", "obsAny", "obsSI":
			continue // needs arguments
		}
		q := compile(ProgSpec{Src: o.Name + "()", Opts: cp.Opts}, nil)
		if q.err != nil && q.panic == "" {
			e.violate("option-model", "registered-function-missing", fmt.Sprintf("%s: function %q registered by the option list does not resolve: %v", where, o.Name, q.err))
			continue
		}
		// ... and it is the registered function that runs under that name (whatever else the
		// list contains, e.g. WithExperimentalFuncs after a custom `join`)
		if q.ok() && q.fp != nil && e.r != nil {
			oc := newOpCtx(0)
			e.r.setRootOp(oc)
			func() {
				defer func() { _ = recover() }()
				_, _ = q.fp.Evaluate(e.in.resources[:1])
			}()
			e.r.setRootOp(nil)
			if oc.cbCalls == 0 {
				e.violate("option-model", "registered-function-not-invoked", fmt.Sprintf("%s: calling %s() did not run the function registered under that name (%s)", where, o.Name, o.Fn))
			} else {
				st.probe("registered-function-invoked")
			}
		}
	}
}

func (e *c17Exec) compiledFor(op *C17Op) *compiled {
	k := optsKey(op.Src, op.COpts)
	if p, ok := e.progs[k]; ok {
		return p
	}
	p := compile(ProgSpec{Src: op.Src, Opts: op.COpts}, &e.v.Stats)
	e.progs[k] = p
	return p
}

// refFor compiles (once per run) the option-less reference program of a position differential.
func (e *c17Exec) refFor(src string) *compiled {
	k := "ref\x00" + src
	if p, ok := e.progs[k]; ok {
		return p
	}
	p := compile(ProgSpec{Src: src}, nil)
	e.progs[k] = p
	return p
}

func (e *c17Exec) runOp(in *inputs, oc *opCtx, ci, oi int, op *C17Op) string {
	st := &e.v.Stats
	st.Ops++
	p := e.compiledFor(op)
	where := fmt.Sprintf("client %d op %d [%s] %q opts %s", ci, oi, op.Tmpl, op.Src, describeEOpts(in, op.Opts))
	if !p.ok() {
		if p.panic == "" && op.Tmpl == "posdiff" {
			// the same program with `$this` (or the literal) in that position
			if ref := compile(ProgSpec{Src: op.Arg}, nil); ref.ok() {
				e.violate("custom-function", "rejected-in-position", fmt.Sprintf("%s: Compile rejects the program (%v) although every option is valid and %q, the same program with $this / the literal in that position, compiles", where, p.err, op.Arg))
				return "uncompiled"
			}
			// this library's grammar support does not cover the position at all
			e.v.Stats.probe("posdiff-position-unsupported-by-the-grammar")
			return "uncompiled"
		}
		if p.panic == "" && p.err != nil {
			// every program of the generator registers its functions with good signatures under free names:
			// Compile saying that such a name cannot be resolved is the library's doing, not the generator's
			for _, o := range op.COpts {
				if o.Kind == "fn" && !strings.HasPrefix(o.Fn, "badsig") && strings.Contains(op.Src, o.Name+"(") && strings.HasSuffix(p.err.Error(), "can't be resolved: "+o.Name) {
					e.violate("custom-function", "registered-function-not-resolved", fmt.Sprintf("%s: the function %q is registered by this Compile's options, yet Compile fails with: %v", where, o.Name, p.err))
					return "uncompiled"
				}
			}
		}
		if p.panic == "" {
			e.v.Infra = fmt.Sprintf("%s: program does not compile: %v", where, p.err)
		}
		return "uncompiled"
	}
	opts, _, err := in.buildEvalOpts(op.Opts, nil)
	if err != nil {
		e.v.Infra = err.Error()
		return "infra"
	}
	resources := pickResources(&Op{Res: op.Res}, in.resources)
	var got system.Collection
	var gerr error
	var sentinelTail []fhirpath.EvaluateOption
	panicked := ""
	func() {
		defer func() {
			if pv := recover(); pv != nil {
				panicked = maskPtr(fmt.Sprint(pv))
			}
		}()
		// the options are handed over as a window of a longer slice: what lies behind the window
		// belongs to the caller
		full := append(append(make([]fhirpath.EvaluateOption, 0, len(opts)+2), opts...), e.sentinelOpts[0], e.sentinelOpts[1])
		got, gerr = p.fp.Evaluate(resources, full[:len(opts)]...)
		sentinelTail = full[len(opts):]
	}()
	st.NodeSteps += oc.nodes
	if panicked == "" && sentinelTail != nil {
		// by identity, without evaluating anything more (an extra Evaluate here would itself change
		// what the next operation finds, e.g. recycle and clean a pooled context)
		for k := 0; k < 2; k++ {
			if ifaceData(sentinelTail[k]) != ifaceData(e.sentinelOpts[k]) {
				e.violate("option-model", "caller-options-overwritten", fmt.Sprintf("%s: the caller's option slice was written to behind the options it passed (slot %d no longer holds the caller's option)", where, k))
				break
			}
		}
		st.probe("option-slice-tail-checked")
	}
	if panicked != "" {
		return "panic" // not asserted here
	}
	out := "ok"
	if gerr != nil {
		out = "err:" + errKind(gerr)
	}
	m := modelEvalOpts(in, op.Opts)
	st.probe("tmpl-" + op.Tmpl)

	// ---- a failing option anywhere: that error, and nothing runs ----
	if m.fails {
		st.fault("option-fail")
		if gerr == nil {
			e.violate("option-model", "evaluate-accepted", where+": Evaluate succeeded although an option must fail (duplicate/predefined name or unsupported value)")
			return out
		}
		if oc.nodes > 0 || oc.cbCalls > 0 {
			e.violate("option-model", "evaluated-despite-option-failure", fmt.Sprintf("%s: an option failed (%v) but %d expression nodes and %d callbacks ran", where, gerr, oc.nodes, oc.cbCalls))
		}
		anyUns, anyEx := false, false
		for _, i := range m.failed {
			okUns := m.unsupported[i] && errors.Is(gerr, fhirpath.ErrUnsupportedType)
			okEx := m.exists[i] && errors.Is(gerr, fhirpath.ErrExistingConstant)
			if !okUns && !okEx {
				e.violate("option-model", "option-error-kind", fmt.Sprintf("%s: option %d must fail with %s but the error is: %v", where, i, wantKinds(m, i), gerr))
			}
			anyUns = anyUns || m.unsupported[i]
			anyEx = anyEx || m.exists[i]
		}
		if !anyUns && errors.Is(gerr, fhirpath.ErrUnsupportedType) {
			e.violate("option-model", "spurious-unsupported", where+": error reports ErrUnsupportedType but every supplied value is supported: "+gerr.Error())
		}
		if !anyEx && errors.Is(gerr, fhirpath.ErrExistingConstant) {
			e.violate("option-model", "spurious-existing", where+": error reports ErrExistingConstant but no name is supplied twice or predefined: "+gerr.Error())
		}
		return out
	}
	if gerr != nil && oc.nodes == 0 {
		e.violate("option-model", "valid-options-rejected", where+": every option is valid but Evaluate failed before evaluating anything: "+gerr.Error())
		return out
	}
	if errors.Is(gerr, fhirpath.ErrExistingConstant) || errors.Is(gerr, fhirpath.ErrUnsupportedType) {
		e.violate("option-model", "spurious-option-error", where+": "+gerr.Error())
		return out
	}

	// ---- template-specific expectations ----
	expectItems := func(want []any, what string) {
		if gerr != nil {
			e.violate("variable-value", "unexpected-error:"+op.Tmpl, fmt.Sprintf("%s: expected %s but Evaluate failed: %v", where, what, gerr))
			return
		}
		if ok, d := sameItems(got, want); !ok {
			e.violate("variable-value", "wrong-value:"+op.Tmpl, fmt.Sprintf("%s: expected %s; %s", where, what, d))
		}
	}
	input := make([]any, len(resources))
	for i, r := range resources {
		input[i] = r
	}
	// the items "Patient.<field>" denotes on this input: every Patient of the input contributes
	var items []any
	if op.Field != "" {
		for _, res := range resources {
			if res.ProtoReflect().Descriptor().Name() == "Patient" {
				items = append(items, listItems(res, op.Field)...)
			}
		}
	}
	bound, isBound := m.bound[op.Name]
	switch op.Tmpl {
	case "var":
		if !isBound {
			if gerr == nil {
				e.violate("variable-value", "unknown-variable-accepted", where+": the variable is not supplied but evaluation succeeded")
			}
			break
		}
		expectItems(splice(bound), "exactly the supplied value (a collection spliced, not nested)")
	case "context":
		expectItems(input, "the input collection")
	case "ucum":
		expectItems([]any{system.String(ucumURL)}, "the UCUM URL")
	case "unknown":
		if gerr == nil {
			e.violate("variable-value", "unknown-variable-accepted", where+": an unknown variable evaluated without error")
		}
	case "select-var":
		if !isBound {
			break
		}
		var want []any
		for range items {
			want = append(want, splice(bound)...)
		}
		expectItems(want, fmt.Sprintf("the supplied value once per item (%d items)", len(items)))
	case "where-var":
		if b, ok := bound.(system.Boolean); ok && isBound {
			if bool(b) {
				expectItems(items, "every item (criterion variable is true)")
			} else {
				expectItems(nil, "no item (criterion variable is false)")
			}
		}
	case "arg-var": // obsAny(%name): invoked with the single item, or an error and no invocation
		if !isBound {
			break
		}
		sp := splice(bound)
		if len(sp) == 1 {
			expectItems(sp, "the callback's return value (its argument)")
			e.expectObs(where, oc, [][]any{input}, [][]any{sp})
		} else {
			if gerr == nil {
				e.violate("custom-function", "non-singleton-argument-accepted", fmt.Sprintf("%s: the argument evaluates to %d items but the call succeeded", where, len(sp)))
			}
			if len(oc.obs) > 0 {
				e.violate("custom-function", "invoked-despite-bad-argument", where+": the callback ran although its argument is not a single item")
			}
		}
	case "posdiff": // the program with pf() / %v in a position == the program with $this / the literal there
		if op.Name != "" && !isBound {
			break
		}
		ref := e.refFor(op.Arg)
		if !ref.ok() {
			e.v.Infra = fmt.Sprintf("%s: reference program %q does not compile: %v", where, op.Arg, ref.err)
			break
		}
		var rgot system.Collection
		var rerr error
		func() {
			defer func() {
				if pv := recover(); pv != nil {
					rerr = fmt.Errorf("panic: %v", pv)
				}
			}()
			rgot, rerr = ref.fp.Evaluate(resources)
		}()
		st.probe("position-differential-compared")
		switch {
		case (rerr == nil) != (gerr == nil):
			e.violate("custom-function", "position-differs", fmt.Sprintf("%s: ends with error %v, but %q - the same program with $this / the literal in that position - ends with error %v", where, gerr, op.Arg, rerr))
		case rerr == nil:
			if ok, d := sameItems(got, []any(rgot)); !ok {
				e.violate("custom-function", "position-differs", fmt.Sprintf("%s: result differs from that of %q, the same program with $this / the literal in that position: %s", where, op.Arg, d))
			}
		}
	case "call0": // F.obs0(): sees the items of F, returns them
		expectItems(items, "the collection the callback returned (its input)")
		e.expectObs(where, oc, [][]any{items}, [][]any{nil})
	case "call-ret": // F.<fn>() with a canned return
		switch op.Arg {
		case "empty", "nilc":
			expectItems(nil, "the empty collection the callback returned")
		case "const":
			expectItems([]any{system.Integer(7), system.String("seven"), system.Boolean(true)}, "the collection the callback returned")
		case "fail", "failkeep":
			if !errors.Is(gerr, injected[op.K]) {
				e.violate("custom-function", "callback-error-lost", fmt.Sprintf("%s: the callback returned injected error %d but Evaluate returned: %v", where, op.K, gerr))
			} else {
				st.fault("callback-error")
			}
		}
		if op.Arg == "empty" || op.Arg == "nilc" || op.Arg == "const" {
			st.fault("callback-odd")
		}
	case "where-call": // F.where(obsT()): once per item, input = that item
		expectItems(items, "every item (the callback answers true)")
		var ins [][]any
		for _, it := range items {
			ins = append(ins, []any{it})
		}
		e.expectObs(where, oc, ins, make([][]any, len(items)))
	case "where-failat": // F.where(failat:k())
		if op.K <= len(items) {
			if !errors.Is(gerr, injected[3]) {
				e.violate("custom-function", "callback-error-lost", fmt.Sprintf("%s: the callback failed at its invocation %d but Evaluate returned: %v", where, op.K, gerr))
			} else {
				st.fault("callback-error")
			}
			if len(oc.obs) != op.K {
				e.violate("custom-function", "invocation-count", fmt.Sprintf("%s: %d invocations, expected %d (the evaluation must stop at the failing one)", where, len(oc.obs), op.K))
			}
		} else {
			expectItems(items, "every item")
		}
	case "select-const": // F.select(k3())
		var want []any
		for range items {
			want = append(want, system.Integer(7), system.String("seven"), system.Boolean(true))
		}
		expectItems(want, "the callback's collection once per item")
		st.fault("callback-odd")
	case "method-identity": // mt() [& '|' & mu()]: each name runs the function registered under it in THIS Compile
		want := op.Arg
		if want == "\x00" {
			break
		}
		if gerr != nil {
			e.violate("custom-function", "callback-identity", fmt.Sprintf("%s: failed: %v", where, gerr))
			break
		}
		if ok, d := sameItems(got, []any{system.String(want)}); !ok {
			e.violate("custom-function", "callback-identity", fmt.Sprintf("%s: the functions registered for this Compile answer %q: %s", where, want, d))
		}
	case "iif-call": // iif(true, obs0()) on the input
		expectItems(input, "the collection the callback returned (the input)")
		e.expectObs(where, oc, [][]any{input}, [][]any{nil})
	case "call-nested": // F.os(rs()): the argument expression is itself a custom call - evaluated once, against F
		if gerr != nil {
			e.violate("custom-function", "good-argument-rejected:nested", fmt.Sprintf("%s: a single String argument produced by another custom function, but the call failed: %v", where, gerr))
			break
		}
		e.expectObs(where, oc, [][]any{items, items}, [][]any{nil, {system.String("abc")}})
		if len(oc.obs) == 2 && (oc.obs[0].fn != "obsRetS" || oc.obs[1].fn != "obsS") {
			e.violate("custom-function", "invocation-order", fmt.Sprintf("%s: callbacks ran as %s, %s", where, oc.obs[0].fn, oc.obs[1].fn))
		}
		if ok, d := sameItems(got, []any{system.String("abc")}); !ok {
			e.violate("custom-function", "return-not-passed-through", fmt.Sprintf("%s: %s", where, d))
		}
	case "nested-fail": // F.os(fs()): the argument expression fails with an injected error
		if !errors.Is(gerr, injected[op.K]) {
			e.violate("custom-function", "callback-error-lost", fmt.Sprintf("%s: a custom function called in the argument of another one returned injected error %d but Evaluate returned: %v", where, op.K, gerr))
		} else {
			st.fault("callback-error")
		}
		for _, o := range oc.obs {
			if o.fn == "obsS" {
				e.violate("custom-function", "invoked-despite-bad-argument", where+": the outer function ran although its argument expression failed")
			}
		}
	case "context-after-clobber": // iif(cl().exists(), %context): what the callback does to ITS collection must not reach %context
		expectItems(input, "the input collection (a callback overwrote the collection it was handed, which must not be the one behind %context)")
	case "partial-leak": // a collection returned together with an error is not a result
		for _, it := range got {
			if it == system.String("PARTIAL") {
				e.violate("custom-function", "partial-result-leaked", where+": a collection that a custom function returned TOGETHER WITH an error shows up in the result of Evaluate")
				break
			}
		}
	case "callS": // F.obsS(<arg>)
		e.checkTypedCall(where, oc, op, got, gerr, items)
	case "callH": // Patient.oh(name...): the callback's input is the resource, the argument one of its names
		var patients []any
		for _, res := range resources {
			if res.ProtoReflect().Descriptor().Name() == "Patient" {
				patients = append(patients, res)
			}
		}
		e.checkTypedCallH(where, oc, op, got, gerr, patients, items)
	case "callSI":
		e.checkTypedCall(where, oc, op, got, gerr, items)
	}
	return out
}

func wantKinds(m evalModel, i int) string {
	var k []string
	if m.unsupported[i] {
		k = append(k, "ErrUnsupportedType")
	}
	if m.exists[i] {
		k = append(k, "ErrExistingConstant")
	}
	return strings.Join(k, " or ")
}

func describeEOpts(in *inputs, opts []EOpt) string {
	var s []string
	for _, o := range opts {
		if o.Kind == "var" {
			s = append(s, fmt.Sprintf("%%%s=%s", o.Name, short(fmt.Sprintf("%T", in.vars[o.Var]), 40)))
		} else {
			s = append(s, "time")
		}
	}
	return "[" + strings.Join(s, " ") + "]"
}

// expectObs: the callbacks of this operation were invoked exactly len(ins) times, the i-th
// with input ins[i] (item identity) and arguments args[i].
func (e *c17Exec) expectObs(where string, oc *opCtx, ins [][]any, args [][]any) {
	if len(oc.obs) != len(ins) {
		e.violate("custom-function", "invocation-count", fmt.Sprintf("%s: %d callback invocations, expected %d", where, len(oc.obs), len(ins)))
		return
	}
	for i := range ins {
		if ok, d := sameItems(oc.obs[i].in, ins[i]); !ok {
			e.violate("custom-function", "wrong-input-collection", fmt.Sprintf("%s: invocation %d was given an input collection that is not the current one: %s", where, i, d))
			return
		}
		if ok, d := sameItems(system.Collection(oc.obs[i].args), args[i]); !ok {
			e.violate("custom-function", "wrong-arguments", fmt.Sprintf("%s: invocation %d was given wrong arguments: %s", where, i, d))
			return
		}
	}
	e.v.Stats.probe("callback-observation-checked")
}

// checkTypedCall: F.fn(args) with a fixed, typed parameter list.
func (e *c17Exec) checkTypedCall(where string, oc *opCtx, op *C17Op, got system.Collection, gerr error, items []any) {
	st := &e.v.Stats
	bad := func(what string) {
		st.fault("bad-arg:" + op.Arg)
		if gerr == nil {
			e.violate("custom-function", "bad-argument-accepted:"+op.Arg, fmt.Sprintf("%s: %s but the call succeeded", where, what))
		}
		if len(oc.obs) > 0 {
			e.violate("custom-function", "invoked-despite-bad-argument", fmt.Sprintf("%s: %s but the callback ran", where, what))
		}
	}
	good := func(args []any, ret []any) {
		if gerr != nil {
			e.violate("custom-function", "good-argument-rejected:"+op.Arg, fmt.Sprintf("%s: well-typed single-item arguments but the call failed: %v", where, gerr))
			return
		}
		e.expectObs(where, oc, [][]any{items}, [][]any{args})
		if ok, d := sameItems(got, ret); !ok {
			e.violate("custom-function", "return-not-passed-through", fmt.Sprintf("%s: the collection the callback returned did not come back unchanged: %s", where, d))
		}
	}
	switch op.Arg {
	case "str-lit":
		good([]any{system.String("abc")}, []any{system.String("abc")})
	case "str-concat":
		good([]any{system.String("abc")}, []any{system.String("abc")})
	case "int-lit":
		good([]any{system.Integer(5)}, []any{system.Integer(5)})
	case "si-lit":
		good([]any{system.String("abc"), system.Integer(5)}, []any{system.Integer(5), system.String("abc")})
	case "wrong-type":
		bad("the argument has the wrong type")
	case "empty":
		bad("the argument is empty")
	case "multi":
		bad("the argument has several items")
	}
}

func (e *c17Exec) checkTypedCallH(where string, oc *opCtx, op *C17Op, got system.Collection, gerr error, input, names []any) {
	bad := func(what string) {
		e.v.Stats.fault("bad-arg:" + op.Arg)
		if gerr == nil {
			e.violate("custom-function", "bad-argument-accepted:"+op.Arg, fmt.Sprintf("%s: %s but the call succeeded", where, what))
		}
		if len(oc.obs) > 0 {
			e.violate("custom-function", "invoked-despite-bad-argument", fmt.Sprintf("%s: %s but the callback ran", where, what))
		}
	}
	single := func(it any) {
		if gerr != nil {
			e.violate("custom-function", "good-argument-rejected:"+op.Arg, fmt.Sprintf("%s: a single HumanName argument but the call failed: %v", where, gerr))
			return
		}
		e.expectObs(where, oc, [][]any{input}, [][]any{{it}})
		if ok, d := sameItems(got, []any{it}); !ok {
			e.violate("custom-function", "return-not-passed-through", fmt.Sprintf("%s: the collection the callback returned did not come back unchanged: %s", where, d))
		}
	}
	switch op.Arg {
	case "name-first":
		if len(names) == 0 {
			bad("the argument is empty")
		} else {
			single(names[0])
		}
	case "name-all":
		switch len(names) {
		case 0:
			bad("the argument is empty")
		case 1:
			single(names[0])
		default:
			bad("the argument has several items")
		}
	default:
		bad("the argument is empty or has the wrong type")
	}
}

func execC17(t *testing.T, c *Case) (v *Verdict) {
	v = &Verdict{}
	v.Stats.Runs = 1
	if c.C17 == nil {
		v.Infra = "case has no c17 section"
		return v
	}
	e := &c17Exec{c: c, v: v, progs: map[string]*compiled{}}
	defer func() {
		if p := recover(); p != nil {
			v.Infra = bubblePanic(p, &v.Stats)
		}
	}()
	var sdig string
	var outs []string
	runBubble(t, func(t *testing.T) {
		start := time.Now()
		v.Stats.SubRuns++
		in, err := buildInputs(c)
		if err != nil {
			v.Infra = "inputs: " + err.Error()
			return
		}
		r := &runCtx{c: c, stats: &v.Stats, in: in}
		setRun(r)
		defer setRun(nil)
		e.r, e.in = r, in
		compileOptCache = nil
		if c.Knobs.ReuseOpts {
			// option VALUES are reused between calls, the way an application keeps its options around
			compileOptCache = map[string]fhirpath.CompileOption{}
			var lists [][]EOpt
			for ci := range c.C17.Clients {
				for oi := range c.C17.Clients[ci] {
					lists = append(lists, c.C17.Clients[ci][oi].Opts)
				}
			}
			in.prepareEvalOpts(lists...)
			v.Stats.probe("option-values-reused")
		}
		defer func() { compileOptCache = nil }()
		for k := 0; k < 2; k++ {
			e.sentinelOpts[k] = evalopts.EnvVariable(fmt.Sprintf("zs%d", k), system.String(fmt.Sprintf("sentinel-%d", k)))
		}
		v.Stats.probeN("enumerated-evaluate-option-lists", c.C17.EnumEval)
		v.Stats.probeN("enumerated-compile-option-lists", c.C17.EnumCompile)
		for i := range c.C17.Compiles {
			e.checkCompile(i, &c.C17.Compiles[i])
		}
		// leak: nothing registered above exists afterwards
		for _, cp := range c.C17.Compiles {
			for _, o := range cp.Opts {
				if o.Kind == "fn" && !processTables.base[o.Name] && !processTables.exp[o.Name] {
					if _, err := fhirpath.Compile(o.Name+"()", compopts.WithExperimentalFuncs()); err == nil {
						e.violate("option-model", "function-leak", fmt.Sprintf("function %q registered for one Compile resolves in a later Compile without the option", o.Name))
					}
				}
			}
		}
		cl := c.C17.Clients
		// compile every program up front (root only)
		for ci := range cl {
			for oi := range cl[ci] {
				e.compiledFor(&cl[ci][oi])
			}
		}
		results := make([][]string, len(cl))
		run := func(ci, oi int, oc *opCtx) {
			results[ci] = append(results[ci], e.runOp(in, oc, ci, oi, &cl[ci][oi]))
		}
		if c.Knobs.NoSched || len(cl) <= 1 {
			for ci := range cl {
				for oi := range cl[ci] {
					oc := newOpCtx(0)
					r.setRootOp(oc)
					run(ci, oi, oc)
				}
			}
			r.setRootOp(nil)
		} else {
			sc := newSched(c.Tape, c.Knobs.SwitchThr, 8000)
			r.attach(sc)
			r.taskOps = make([]*opCtx, len(cl))
			panics := make([]string, len(cl))
			for ci := range cl {
				ci := ci
				sc.spawn(func(tk *task) {
					defer func() {
						if p := recover(); p != nil {
							panics[ci] = fmt.Sprint(p)
						}
					}()
					for oi := range cl[ci] {
						sc.yield(ypOpBoundary, -1)
						oc := newOpCtx(0)
						r.setTaskOp(tk.id, oc)
						run(ci, oi, oc)
						r.setTaskOp(tk.id, nil)
						sc.noteOpDone(tk)
					}
				})
			}
			if err := sc.run(nil); err != nil {
				v.Infra = err.Error()
				return
			}
			r.detach(sc)
			for ci, p := range panics {
				if p != "" {
					v.Infra = fmt.Sprintf("client %d harness panic: %s", ci, p)
					return
				}
			}
			sdig = fmt.Sprintf("%x", sc.sdig)
			v.Stats.Yields += sc.steps
			v.Stats.Switches += sc.switches
			v.Stats.Faults = addN(v.Stats.Faults, "preempt", sc.switches)
		}
		for ci := range results {
			outs = append(outs, strings.Join(results[ci], "|"))
		}
		v.Stats.SimTimeMs += time.Since(start).Milliseconds()
	})
	v.SchedDigest = digest(sdig)
	v.OutcomeDigest = digest(strings.Join(outs, "\n"))
	return v
}

func minimiseC17(m *minimiser, cur **Case) {
	c := *cur
	m.try(cur, func(c *Case) bool { ch := len(c.C17.Compiles) > 0; c.C17.Compiles = nil; return ch })
	for i := len((*cur).C17.Compiles) - 1; i >= 0; i-- {
		i := i
		m.try(cur, func(c *Case) bool {
			if i >= len(c.C17.Compiles) {
				return false
			}
			c.C17.Compiles = append(c.C17.Compiles[:i], c.C17.Compiles[i+1:]...)
			return true
		})
	}
	for ci := len((*cur).C17.Clients) - 1; ci >= 0; ci-- {
		ci := ci
		m.try(cur, func(c *Case) bool {
			if ci >= len(c.C17.Clients) {
				return false
			}
			c.C17.Clients = append(c.C17.Clients[:ci], c.C17.Clients[ci+1:]...)
			return true
		})
	}
	for ci := 0; ci < len((*cur).C17.Clients); ci++ {
		for oi := len((*cur).C17.Clients[ci]) - 1; oi >= 0; oi-- {
			ci, oi := ci, oi
			m.try(cur, func(c *Case) bool {
				if ci >= len(c.C17.Clients) || oi >= len(c.C17.Clients[ci]) {
					return false
				}
				c.C17.Clients[ci] = append(c.C17.Clients[ci][:oi], c.C17.Clients[ci][oi+1:]...)
				return true
			})
		}
	}
	for ci := 0; ci < len((*cur).C17.Clients); ci++ {
		for oi := 0; oi < len((*cur).C17.Clients[ci]); oi++ {
			for k := len((*cur).C17.Clients[ci][oi].Opts) - 1; k >= 0; k-- {
				ci, oi, k := ci, oi, k
				m.try(cur, func(c *Case) bool {
					o := &c.C17.Clients[ci][oi]
					if k >= len(o.Opts) {
						return false
					}
					o.Opts = append(o.Opts[:k], o.Opts[k+1:]...)
					return true
				})
			}
		}
	}
	_ = c
}
