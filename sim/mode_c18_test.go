package verifsim

// Mode C18: FHIRPatch operations change exactly the targeted element, or nothing.
// Histories of patch operations are driven against the real patch package and the
// reflection model of model_c18_test.go; "fail here" (node error, failing callback,
// failing option, bad argument) is one more generated event. One or more clients, each
// with a private resource, share compiled patch expressions under the scheduler.

import (
	"bytes"
	"encoding/json"
	"errors"
	"fmt"
	"sort"
	"strings"
	"testing"
	"time"

	"github.com/google/fhir/go/fhirversion"
	"github.com/google/fhir/go/jsonformat"
	apb "github.com/google/fhir/go/proto/google/fhir/proto/annotations_go_proto"
	"github.com/verily-src/fhirpath-go/fhirpath"
	"github.com/verily-src/fhirpath-go/fhirpath/evalopts"
	"github.com/verily-src/fhirpath-go/fhirpath/patch"
	"github.com/verily-src/fhirpath-go/fhirpath/system"
	"github.com/verily-src/fhirpath-go/internal/fhir"
	"google.golang.org/protobuf/proto"
	"google.golang.org/protobuf/reflect/protoreflect"
	"google.golang.org/protobuf/types/known/anypb"
)

type C18Op struct {
	Op    string   `json:"op"` // add insert delete replace move
	Path  string   `json:"path"`
	Name  string   `json:"name,omitempty"`
	Index int      `json:"index,omitempty"`
	Dest  int      `json:"dest,omitempty"`  // move: destination index (Index is the source)
	Value *ResSpec `json:"value,omitempty"` // nil: nil argument
	Note  string   `json:"note,omitempty"`  // generator's intent (informational + fault accounting)
	API   string   `json:"api"`             // pkg: package-level function (compiles each time) | expr: shared compiled expression
	COpts []COpt   `json:"copts,omitempty"`
	EOpts []EOpt   `json:"eopts,omitempty"`
	FailN int      `json:"fail_n,omitempty"`
	// Want: the location (of the resource in state State) the generator spelled the path for, when the
	// spelling denotes exactly that element. The reference model's own idea of what the path denotes:
	// a field name is that field, [n] is the n-th entry of the list as it is stored.
	Want  string `json:"want,omitempty"`
	State string `json:"state,omitempty"`
	// BadUTF8: the string held by the value is replaced by bytes that are not valid UTF-8 just before
	// the call, so that re-encoding the contained resource it goes into must fail (a marshal fault)
	BadUTF8 bool `json:"bad_utf8,omitempty"`
	// Contained: the path enters contained[Idx]; Inner is the same path relative to that
	// contained resource taken on its own (the model works on the unpacked resource)
	Contained *C18Contained `json:"contained,omitempty"`
}

type C18Contained struct {
	Idx   int    `json:"idx"`
	Type  string `json:"type"` // resource type the generator saw at contained[Idx]
	Inner string `json:"inner"`
	// Single: the path says `.contained` without an index, which denotes contained[Idx] only
	// while the list has exactly one entry
	Single bool `json:"single,omitempty"`
	// Next: the path goes on into a contained entry of that contained resource (protos allow the
	// nesting; navigation and the write-back after a patch must cope with it)
	Next *C18Contained `json:"next,omitempty"`
}

// innermost returns the last link of the chain.
func (c *C18Contained) innermost() *C18Contained {
	for c.Next != nil {
		c = c.Next
	}
	return c
}

// unpackChain follows the chain of contained entries from res and returns the innermost resource,
// or an error when the history has diverged from what the generator recorded.
func unpackChain(res proto.Message, c *C18Contained) (fhir.Resource, error) {
	cur := res
	var inner fhir.Resource
	for ; c != nil; c = c.Next {
		x, err := unpackContained(cur, c.Idx)
		if err != nil {
			return nil, err
		}
		if c.Single && containedLen(cur) != 1 {
			return nil, fmt.Errorf("the un-indexed path no longer denotes a single contained resource")
		}
		if string(x.ProtoReflect().Descriptor().Name()) != c.Type {
			return nil, fmt.Errorf("contained[%d] is a %s, not a %s", c.Idx, x.ProtoReflect().Descriptor().Name(), c.Type)
		}
		inner, cur = x, x
	}
	return inner, nil
}

// withChain returns a copy of res in which the innermost resource of the chain is model.
func withChain(res proto.Message, c *C18Contained, model proto.Message) (proto.Message, error) {
	if c.Next == nil {
		return withContained(res, c.Idx, model)
	}
	inner, err := unpackContained(res, c.Idx)
	if err != nil {
		return nil, err
	}
	ni, err := withChain(inner, c.Next, model)
	if err != nil {
		return nil, err
	}
	return withContained(res, c.Idx, ni)
}

type C18Client struct {
	Res int     `json:"res"`
	Ops []C18Op `json:"ops"`
}

type C18Case struct {
	Clients []C18Client `json:"clients"`
}

func (c *C18Case) sample() any {
	var out []string
	for _, cl := range c.Clients {
		var b strings.Builder
		for _, op := range cl.Ops {
			fmt.Fprintf(&b, "%s(%s", op.Op, short(op.Path, 80))
			if op.Op == "add" {
				fmt.Fprintf(&b, ",%s", op.Name)
			}
			if op.Op == "insert" {
				fmt.Fprintf(&b, ",@%d", op.Index)
			}
			if op.Note != "" {
				fmt.Fprintf(&b, ",%s", op.Note)
			}
			if op.FailN > 0 {
				fmt.Fprintf(&b, ",fail@%d", op.FailN)
			}
			b.WriteString(") ")
		}
		out = append(out, strings.TrimSpace(b.String()))
	}
	return out
}

var jsonM *jsonformat.Marshaller

func jsonMarshaller() *jsonformat.Marshaller {
	if jsonM == nil {
		m, err := jsonformat.NewMarshaller(false, "", "", fhirversion.R4)
		if err != nil {
			panic(err)
		}
		jsonM = m
	}
	return jsonM
}

// jsonTree renders a resource as its FHIR JSON tree (nil when jsonformat cannot render it).
func jsonTree(m proto.Message) any {
	var b []byte
	var err error
	func() {
		defer func() {
			if recover() != nil {
				err = errors.New("panic")
			}
		}()
		b, err = jsonMarshaller().MarshalResource(m)
	}()
	if err != nil {
		return nil
	}
	var v any
	d := json.NewDecoder(bytes.NewReader(b))
	d.UseNumber()
	if d.Decode(&v) != nil {
		return nil
	}
	return v
}

func jsonEqual(a, b any) bool {
	x, _ := json.Marshal(a)
	y, _ := json.Marshal(b)
	return bytes.Equal(x, y)
}

type c18Exec struct {
	c      *Case
	v      *Verdict
	cache  map[string]*patch.Expression
	cacheE map[string]error
	out    []string
	// values handed to operations that failed: they never became part of a resource, so they must
	// still be what they were when every history has ended
	rejected []rejectedValue
}

type rejectedValue struct {
	where string
	value fhir.Base
	bytes []byte
}

func (e *c18Exec) violate(oracle, class, detail string) {
	e.v.Violations = append(e.v.Violations, Violation{Property: "C18", Oracle: oracle, Class: class, Detail: short(detail, 1800)})
}

func optsKey(path string, o []COpt) string {
	b, _ := json.Marshal(o)
	return path + "\x00" + string(b)
}

// selection is what the path denotes on the current resource, obtained with a plain
// fhirpath evaluation (no patch machinery, no injected fault).
type selection struct {
	compileErr error
	evalErr    error
	panicked   string
	items      system.Collection
	locs       []loc // per item; valid iff located[i]
	located    []bool
}

func (e *c18Exec) selectOn(r *runCtx, res fhir.Resource, li *locIndex, op *C18Op, eopts []fhirpath.EvaluateOption) (s selection) {
	copts, err := buildCompileOpts(op.COpts)
	if err != nil {
		s.compileErr = err
		return
	}
	defer func() {
		if p := recover(); p != nil {
			s.panicked = fmt.Sprint(p)
		}
	}()
	x, err := fhirpath.Compile(op.Path, copts...)
	if err != nil {
		s.compileErr = err
		return
	}
	items, err := x.Evaluate([]fhir.Resource{res}, eopts...)
	if err != nil {
		s.evalErr = err
		return
	}
	s.items = items
	for _, it := range items {
		m, ok := it.(proto.Message)
		if !ok {
			s.locs, s.located = append(s.locs, loc{}), append(s.located, false)
			continue
		}
		if m == li.root {
			s.locs, s.located = append(s.locs, loc{}), append(s.located, true)
			continue
		}
		l, ok := li.byMsg[m]
		s.locs, s.located = append(s.locs, l), append(s.located, ok)
	}
	return
}

func (e *c18Exec) buildEOpts(in *inputs, specs []EOpt) ([]fhirpath.EvaluateOption, error) {
	var out []fhirpath.EvaluateOption
	for _, s := range specs {
		switch s.Kind {
		case "var":
			if s.Var < 0 || s.Var >= len(in.vars) {
				return nil, fmt.Errorf("bad var index %d", s.Var)
			}
			out = append(out, evalopts.EnvVariable(s.Name, in.vars[s.Var]))
		case "time":
			out = append(out, evalopts.OverrideTime(time.UnixMilli(s.TimeMs).UTC()))
		default:
			return nil, fmt.Errorf("unknown evaluate option kind %q", s.Kind)
		}
	}
	return out, nil
}

type c18Result struct {
	err      error
	panicked string
	fired    bool
	nodes    int
}

func (e *c18Exec) runOp(oc *opCtx, res fhir.Resource, op *C18Op, value fhir.Base, eopts []fhirpath.EvaluateOption) (r c18Result) {
	defer func() {
		if p := recover(); p != nil {
			r.panicked = maskPtr(fmt.Sprint(p))
		}
		r.fired, r.nodes = oc.failFired, oc.nodes
	}()
	copts, err := buildCompileOpts(op.COpts)
	if err != nil {
		r.err = fmt.Errorf("harness: %w", err)
		return
	}
	if op.API == "pkg" {
		switch op.Op {
		case "add":
			r.err = patch.Add(res, op.Path, op.Name, value, &patch.Options{CompileOpts: copts, EvalOpts: eopts})
		case "insert":
			r.err = patch.Insert(res, op.Path, value, op.Index, copts...)
		case "delete":
			r.err = patch.Delete(res, op.Path, copts...)
		case "replace":
			r.err = patch.Replace(res, op.Path, value, copts...)
		case "move":
			r.err = patch.Move(res, op.Path, op.Index, op.Dest, copts...)
		default:
			r.err = fmt.Errorf("harness: unknown op %q", op.Op)
		}
		return
	}
	key := optsKey(op.Path, op.COpts)
	x, ok := e.cache[key]
	if op.API == "fresh" {
		x, err = patch.Compile(op.Path, copts...)
		if err != nil {
			r.err = err
			return
		}
		ok = true
	}
	if !ok {
		if cerr, seen := e.cacheE[key]; seen {
			r.err = cerr
			return
		}
		x, err = patch.Compile(op.Path, copts...)
		if err != nil {
			e.cacheE[key] = err
			r.err = err
			return
		}
		e.cache[key] = x
	}
	switch op.Op {
	case "add":
		r.err = x.Add(res, op.Name, value, eopts...)
	case "insert":
		r.err = x.Insert(res, value, op.Index, eopts...)
	case "delete":
		r.err = x.Delete(res, eopts...)
	case "replace":
		r.err = x.Replace(res, value, eopts...)
	case "move":
		r.err = x.Move(res, op.Index, op.Dest, eopts...)
	default:
		r.err = fmt.Errorf("harness: unknown op %q", op.Op)
	}
	return
}

// pkgIgnoresEOpts: only patch.Add takes evaluate options at package level.
func usesEOpts(op *C18Op) bool { return op.API == "expr" || op.Op == "add" }

func describeSel(s *selection) string {
	switch {
	case s.compileErr != nil:
		return "path does not compile: " + s.compileErr.Error()
	case s.evalErr != nil:
		return "path evaluation fails: " + s.evalErr.Error()
	case s.panicked != "":
		return "path evaluation panics: " + s.panicked
	}
	var parts []string
	for i, it := range s.items {
		if m, ok := it.(proto.Message); ok {
			if s.located[i] {
				parts = append(parts, fmt.Sprintf("%s at %s", m.ProtoReflect().Descriptor().Name(), s.locs[i]))
			} else {
				parts = append(parts, fmt.Sprintf("%s (not a node of the resource)", m.ProtoReflect().Descriptor().Name()))
			}
		} else {
			parts = append(parts, fmt.Sprintf("%T", it))
		}
	}
	return fmt.Sprintf("path selects %d item(s) [%s]", len(s.items), strings.Join(parts, ", "))
}

// stepOp executes one operation of a client against its private resource and checks it.
func (e *c18Exec) stepOp(r *runCtx, oc *opCtx, in *inputs, res fhir.Resource, ci, oi int, op *C18Op) string {
	st := &e.v.Stats
	st.Ops++
	where := fmt.Sprintf("client %d op %d: %s(%q", ci, oi, op.Op, op.Path)
	if op.Op == "add" {
		where += fmt.Sprintf(", name=%q", op.Name)
	}
	if op.Op == "insert" {
		where += fmt.Sprintf(", index=%d", op.Index)
	}
	if op.Op == "move" {
		where += fmt.Sprintf(", %d -> %d", op.Index, op.Dest)
	}
	where += fmt.Sprintf(") [api=%s note=%s]", op.API, op.Note)

	var value fhir.Base
	var valueBytes []byte
	if op.Value != nil {
		m, err := decodeMessage(op.Value)
		if err != nil {
			e.v.Infra = "value: " + err.Error()
			return "infra"
		}
		vb, ok := m.(fhir.Base)
		if !ok {
			e.v.Infra = fmt.Sprintf("value %s is not a fhir.Base", op.Value.Type)
			return "infra"
		}
		value = vb
		valueBytes = msgBytes(m)
		where += " value=" + op.Value.Type[strings.LastIndex(op.Value.Type, ".")+1:]
	} else if op.Op != "delete" && op.Op != "move" {
		where += " value=nil"
	}

	var eopts []fhirpath.EvaluateOption
	if usesEOpts(op) {
		var err error
		eopts, err = e.buildEOpts(in, op.EOpts)
		if err != nil {
			e.v.Infra = err.Error()
			return "infra"
		}
	}

	before := proto.Clone(res)
	beforeBytes, beforePres := msgBytes(res), presence(res)
	// The model works on mroot with mpath: the resource and the path themselves, or - for a
	// path that enters a contained resource - that resource unpacked and the rest of the path.
	var mroot fhir.Resource = res
	mpath := op.Path
	cont := op.Contained
	if cont != nil {
		// the history may have diverged from what the generator expected (an earlier operation
		// failed or was faulted): the decomposition is only valid if contained[Idx] still is
		// a resource of the recorded type
		inner, err := unpackChain(res, cont)
		if err != nil {
			cont = nil
			st.probe("contained-target-unmodelled")
		} else {
			mroot, mpath = inner, cont.innermost().Inner
			st.probe("contained-target")
			if cont.Next != nil {
				st.probe("contained-target-nested")
			}
		}
	}
	if op.BadUTF8 && cont != nil && value != nil {
		if vf := value.ProtoReflect().Descriptor().Fields().ByName("value"); vf != nil && vf.Kind() == protoreflect.StringKind {
			value.ProtoReflect().Set(vf, protoreflect.ValueOfString("bad\xff\xfeutf8"))
			valueBytes = msgBytes(value)
			st.fault("marshal-failure")
		}
	}
	mbefore := proto.Clone(mroot)
	li := buildLocIndex(mroot)
	// the selection is taken without faults and without counting nodes for the op
	mop := *op
	mop.Path = mpath
	sel := e.selectOn(r, mroot, li, &mop, eopts)
	if !bytes.Equal(msgBytes(res), beforeBytes) {
		e.violate("patch-model", "read-mutated", where+": a plain fhirpath evaluation of the path changed the resource")
		return "read-mutated"
	}
	// What the path denotes is otherwise taken from the library's own evaluation (navigation is not
	// this property's subject) - but the element an operation changes must be the one the path
	// denotes in the resource's tree, and for paths the generator spelled from a location of the
	// resource in exactly this state the denotation is known without evaluating anything.
	denotes := "" // non-empty: the path selects something else than the element it was spelled for
	if op.Want != "" && (op.Contained == nil || cont != nil) && sel.compileErr == nil && sel.evalErr == nil && sel.panicked == "" && op.State == digest(string(msgBytes(mroot))) {
		st.probe("denotation-checked")
		if op.Want == "-" {
			st.probe("denotation-nothing-checked")
			if len(sel.items) != 0 {
				denotes = fmt.Sprintf("the path was spelled with a filter that selects no entry of the resource in this very state (a repeated child with several values compared with one of them), but %s", describeSel(&sel))
			}
		} else if len(sel.items) == 1 && !sel.located[0] {
			// a whole contained entry: navigation hands out the unpacked copy, which has no place in the tree
		} else if len(sel.items) != 1 || strings.TrimSuffix(sel.locs[0].String(), "~") != strings.TrimSuffix(op.Want, "~") { // (~: the alternative inside a choice slot - one place in the tree either way)
			denotes = fmt.Sprintf("the path was spelled for the element at %s of the resource in this very state, but %s", op.Want, describeSel(&sel))
		}
	}

	oc.nodes, oc.failAt, oc.failFired = 0, op.FailN, false
	got := e.runOp(oc, res, op, value, eopts)
	oc.failAt = 0
	st.NodeSteps += got.nodes
	if got.fired {
		st.fault("node-error")
	}
	if got.err != nil && strings.HasPrefix(got.err.Error(), "harness:") {
		e.v.Infra = got.err.Error()
		return "infra"
	}

	afterBytes := msgBytes(res)
	changed := !bytes.Equal(afterBytes, beforeBytes) || presence(res) != beforePres

	// A compiled patch expression is configuration only: the same operation through a freshly
	// compiled expression, on a copy of the resource as it was, must end the same way.
	if op.API == "expr" && got.panicked == "" && !op.BadUTF8 {
		res2 := proto.Clone(before).(fhir.Resource)
		var value2 fhir.Base
		if op.Value != nil {
			if m2, err := decodeMessage(op.Value); err == nil {
				value2, _ = m2.(fhir.Base)
			}
		}
		fop := *op
		fop.API = "fresh"
		oc.nodes, oc.failAt, oc.failFired = 0, op.FailN, false
		got2 := e.runOp(oc, res2, &fop, value2, eopts)
		oc.failAt = 0
		if got2.panicked == "" {
			st.probe("fresh-expression-compared")
			if (got.err == nil) != (got2.err == nil) || !proto.Equal(canonAny(res), canonAny(res2)) {
				e.violate("patch-history", "expression-remembers", where+fmt.Sprintf("\n  through the compiled expression used before in this run: %s; through a freshly compiled expression on a copy of the same resource: %s\n  resource difference: %s",
					outcomeText(got), outcomeText(got2), diffSummary(canonAny(res2), canonAny(res))))
			}
		}
	}
	valueChanged := value != nil && !bytes.Equal(msgBytes(value), valueBytes)
	outcome := "ok"
	if got.panicked != "" {
		outcome = "panic"
	} else if got.err != nil {
		outcome = "err"
	}
	if outcome == "err" && value != nil && !op.BadUTF8 {
		e.rejected = append(e.rejected, rejectedValue{where, value, valueBytes})
	}
	st.probe(op.Op + "-" + outcome)
	for _, part := range strings.Split(op.Note, "+") {
		switch part {
		case "":
		case "callback-error", "option-fail":
			st.fault(part)
		case "contained", "inverse", "absent", "populated", "repeat":
			st.probe("op-" + part)
		default:
			st.fault("bad-arg:" + part)
		}
	}

	ctxt := func() string {
		s := where + "\n  " + describeSel(&sel)
		if got.err != nil {
			s += "\n  returned error: " + short(got.err.Error(), 300)
		} else if got.panicked != "" {
			s += "\n  panicked: " + short(got.panicked, 300)
		} else {
			s += "\n  returned nil"
		}
		return s
	}

	if valueChanged {
		e.violate("patch-model", "value-mutated:"+op.Op, ctxt()+"\n  the supplied value was modified by the operation")
	}

	// ---- failure atomicity (errors and panics alike) ----
	if outcome != "ok" {
		if changed {
			e.violate("patch-atomicity", "failure-mutated:"+op.Op+":"+outcome, ctxt()+"\n  but the resource changed: "+diffSummary(before, res))
		}
		if outcome == "panic" {
			st.probe("panic-atomicity-checked")
		}
		if op.Op == "move" && outcome == "err" && !errors.Is(got.err, patch.ErrNotImplemented) && sel.compileErr == nil {
			e.violate("patch-model", "move-error-kind", ctxt()+"\n  Move must report patch.ErrNotImplemented")
		}
		if op.Op == "delete" && outcome == "err" && sel.compileErr == nil && sel.evalErr == nil && sel.panicked == "" && len(sel.items) == 0 && !got.fired {
			e.violate("patch-model", "delete-absent-failed", ctxt()+"\n  deleting an absent element must succeed without change")
		}
		return outcome + ":" + errKind(got.err)
	}

	// ---- success ----
	if op.Op == "move" {
		e.violate("patch-model", "move-implemented", ctxt()+"\n  Move must always report not-implemented")
		return "ok"
	}
	if got.fired {
		// the injected node failure was swallowed by the evaluation; what the selection
		// "should" have been is not defined, so only the failure path is asserted
		st.probe("fault-fired-but-op-succeeded")
		return "ok-after-fault:" + digest(string(afterBytes))
	}
	if sel.compileErr != nil || sel.evalErr != nil || sel.panicked != "" {
		e.violate("patch-model", "rejected-op-succeeded:"+op.Op+":bad-path", ctxt()+"\n  the operation reported success although its path cannot be evaluated")
		return "ok"
	}

	if denotes != "" && changed {
		// The operation succeeded and changed the resource - but not at the element its path denotes in
		// the tree ("or nothing" is allowed: a path that selects nothing changes nothing).
		e.violate("patch-model", "changed-another-element", ctxt()+"\n  "+denotes+"\n  changed: "+diffSummary(before, res))
		return "ok"
	}
	if op.Contained != nil && cont == nil {
		return "ok-unmodelled:" + digest(string(afterBytes))
	}
	var mafter fhir.Resource = res
	if cont != nil {
		inner, err := unpackChain(res, cont)
		if err != nil {
			e.violate("patch-model", "success-mismatch:"+op.Op, ctxt()+"\n  contained entry unreadable after the operation: "+err.Error())
			return "ok"
		}
		mafter = inner
	}
	model := proto.Clone(mbefore)
	var merr error
	normalised := false
	switch op.Op {
	case "delete":
		switch {
		case len(sel.items) == 0:
			// absent: success without change
		case len(sel.items) > 1:
			merr = reject("non-singleton: %d items selected", len(sel.items))
		case !sel.located[0]:
			merr = reject("no-target: the selected item is not an element of the resource")
		case len(sel.locs[0].steps) == 0:
			merr = reject("no-target: the resource itself cannot be deleted from itself")
		default:
			merr = modelDelete(model, sel.locs[0])
		}
	case "replace":
		switch {
		case len(sel.items) != 1:
			merr = reject("non-singleton: %d items selected", len(sel.items))
		case !sel.located[0] || len(sel.locs[0].steps) == 0:
			merr = reject("no-target: the selected item is not an element of the resource")
		case value == nil:
			merr = reject("nil value")
		default:
			merr = modelReplace(model, sel.locs[0], value)
			if mr, ok := merr.(*modelReject); ok && strings.HasPrefix(mr.reason, "type-mismatch") {
				// a normalised value (string->code, integer->unsignedInt ...): frame + JSON equivalence
				if cur, err := slotAt(mafter, sel.locs[0]); err == nil {
					model = proto.Clone(mbefore)
					if modelReplaceWith(model, sel.locs[0], proto.Clone(cur.Interface()).ProtoReflect()) == nil && jsonScalarEquivalent(cur.Interface(), value) {
						merr, normalised = nil, true
					}
				}
			}
		}
	case "add":
		switch {
		case len(sel.items) != 1:
			merr = reject("non-singleton: %d items selected", len(sel.items))
		case !sel.located[0]:
			merr = reject("no-target: the selected item is not an element of the resource")
		case value == nil:
			merr = reject("nil value")
		default:
			var parent protoreflect.Message
			var fd protoreflect.FieldDescriptor
			parent, fd, merr = modelAdd(model, sel.locs[0], op.Name, value)
			if mr, ok := merr.(*modelReject); ok && strings.HasPrefix(mr.reason, "type-mismatch") && parent != nil && fd != nil {
				if cur, err := addedSlot(mafter, sel.locs[0], op.Name); err == nil {
					model = proto.Clone(mbefore)
					if modelAddWith(model, sel.locs[0], op.Name, proto.Clone(cur.Interface()).ProtoReflect()) == nil && jsonScalarEquivalent(cur.Interface(), value) {
						merr, normalised = nil, true
					}
				}
			}
		}
	case "insert":
		var ls []loc
		allLocated := len(sel.items) > 0
		for i := range sel.items {
			if !sel.located[i] {
				allLocated = false
			}
			ls = append(ls, sel.locs[i])
		}
		switch {
		case len(sel.items) == 0:
			merr = reject("no-target: the path selects nothing, so no list is identified")
		case !allLocated:
			merr = reject("no-target: a selected item is not an element of the resource")
		case value == nil:
			merr = reject("nil value")
		default:
			l, ok := sameList(ls)
			if !ok {
				merr = reject("not-a-list: the selected items are not members of one list")
			} else {
				merr = modelInsert(model, l, value, op.Index)
			}
		}
	}
	if normalised {
		st.probe("normalised-value-accepted")
	}
	if merr != nil {
		mr, ok := merr.(*modelReject)
		if !ok {
			e.v.Infra = "model: " + merr.Error()
			return "infra"
		}
		reason := mr.reason
		if i := strings.IndexByte(reason, ':'); i > 0 {
			reason = reason[:i]
		}
		if reason == "no-target" {
			// what kind of thing was selected: a copy made by navigation (contained resources are
			// unpacked from Any per evaluation), a System value, or the resource itself
			kind := "other"
			for i, it := range sel.items {
				if _, isMsg := it.(proto.Message); isMsg && !sel.located[i] {
					kind = "fresh-copy"
					if strings.Contains(op.Path, "contained") {
						kind = "contained-copy"
					}
				} else if !isMsg {
					kind = "system-value"
				}
			}
			reason += ":" + kind
			if !changed {
				reason += ":unchanged"
			}
		}
		e.violate("patch-model", "rejected-op-succeeded:"+op.Op+":"+reason, ctxt()+"\n  "+merr.Error()+"\n  resource change: "+diffSummary(before, res))
		return "ok"
	}
	expected := model
	if cont != nil {
		// the whole resource with the contained entry replaced by the model's result; contained
		// payloads are compared by content (the byte encoding inside Any is not part of the JSON tree)
		if !proto.Equal(mafter, model) {
			e.violate("patch-model", "success-mismatch:"+op.Op, ctxt()+"\n  the contained resource differs from the model's result.\n  actual vs before: "+diffSummary(mbefore, mafter)+"\n  model  vs before: "+diffSummary(mbefore, model))
			return "ok"
		}
		exp, err := withChain(before, cont, model)
		if err != nil {
			if op.BadUTF8 {
				e.violate("patch-model", "success-mismatch:"+op.Op, ctxt()+"\n  the operation reported success although the changed contained resource cannot be encoded (the value is not valid UTF-8)")
				return "ok"
			}
			e.v.Infra = "contained: " + err.Error()
			return "infra"
		}
		expected = exp
		if !proto.Equal(canonAny(res), canonAny(expected)) {
			e.violate("patch-model", "success-mismatch:"+op.Op, ctxt()+"\n  something outside the targeted contained resource changed: "+diffSummary(canonAny(expected), canonAny(res)))
			return "ok"
		}
	} else if !proto.Equal(res, model) || !bytes.Equal(afterBytes, msgBytes(model)) {
		e.violate("patch-model", "success-mismatch:"+op.Op, ctxt()+"\n  the resource differs from the model's result.\n  actual vs before: "+diffSummary(before, res)+"\n  model  vs before: "+diffSummary(before, model))
		return "ok"
	}
	// the "FHIR JSON tree" wording: cross-check on jsonformat's rendering when it can render both
	if jt := jsonTree(res); jt != nil {
		if mt := jsonTree(expected); mt != nil {
			st.probe("json-cross-check")
			if !jsonEqual(jt, mt) {
				e.violate("patch-model", "json-mismatch:"+op.Op, ctxt()+"\n  FHIR JSON of the resource differs from FHIR JSON of the model's result")
			}
		}
	}
	if len(sel.items) == 1 && sel.located[0] && sel.locs[0].wrapped {
		st.probe("choice-target")
	}
	// structural invariant: a resource is a tree - no element is reachable at two places
	if a, b, shared := sharedNode(res); shared {
		e.violate("patch-model", "aliased-elements", ctxt()+fmt.Sprintf("\n  after the operation the same element object sits at two places of the resource (%s and %s): changing one will change the other", a, b))
	}
	return "ok:" + digest(string(afterBytes))
}

// unpackContained returns contained[idx] of res as a resource of its own.
func unpackContained(res proto.Message, idx int) (fhir.Resource, error) {
	r := res.ProtoReflect()
	cf := r.Descriptor().Fields().ByName("contained")
	if cf == nil || !cf.IsList() || idx < 0 || idx >= r.Get(cf).List().Len() {
		return nil, fmt.Errorf("no contained[%d]", idx)
	}
	a, ok := r.Get(cf).List().Get(idx).Message().Interface().(*anypb.Any)
	if !ok {
		return nil, fmt.Errorf("contained[%d] is not an Any", idx)
	}
	cr := newMessage(findDesc("ContainedResource"))
	if err := a.UnmarshalTo(cr.Interface()); err != nil {
		return nil, err
	}
	_, inner := wrapperAlt(cr)
	if inner == nil {
		return nil, fmt.Errorf("contained[%d] is empty", idx)
	}
	fr, ok := inner.Interface().(fhir.Resource)
	if !ok {
		return nil, fmt.Errorf("contained[%d] is not a resource", idx)
	}
	return fr, nil
}

func containedLen(res proto.Message) int {
	r := res.ProtoReflect()
	cf := r.Descriptor().Fields().ByName("contained")
	if cf == nil || !cf.IsList() {
		return 0
	}
	return r.Get(cf).List().Len()
}

// withContained returns a copy of res whose contained[idx] holds inner.
func withContained(res proto.Message, idx int, inner proto.Message) (proto.Message, error) {
	out := proto.Clone(res)
	r := out.ProtoReflect()
	cf := r.Descriptor().Fields().ByName("contained")
	cr := newMessage(findDesc("ContainedResource"))
	set := false
	fs := cr.Descriptor().Fields()
	for i := 0; i < fs.Len(); i++ {
		if fs.Get(i).Kind() == protoreflect.MessageKind && fs.Get(i).Message().FullName() == inner.ProtoReflect().Descriptor().FullName() {
			cr.Set(fs.Get(i), protoreflect.ValueOfMessage(proto.Clone(inner).ProtoReflect()))
			set = true
		}
	}
	if !set {
		return nil, fmt.Errorf("no ContainedResource alternative for %s", inner.ProtoReflect().Descriptor().Name())
	}
	a, err := anypb.New(cr.Interface())
	if err != nil {
		return nil, err
	}
	r.Mutable(cf).List().Set(idx, protoreflect.ValueOfMessage(a.ProtoReflect()))
	return out, nil
}

// canonAny returns a copy of m in which every Any payload is re-encoded deterministically,
// so that two resources with equal contained resources compare equal.
func canonAny(m proto.Message) proto.Message {
	out := proto.Clone(m)
	var walk func(x protoreflect.Message)
	walk = func(x protoreflect.Message) {
		if a, ok := x.Interface().(*anypb.Any); ok {
			cr := newMessage(findDesc("ContainedResource"))
			if a.UnmarshalTo(cr.Interface()) == nil {
				walk(cr) // contained entries of the contained resource
				if b, err := detMarshal.Marshal(cr.Interface()); err == nil {
					a.Value = b
					a.TypeUrl = "type.googleapis.com/" + string(cr.Descriptor().FullName())
				}
			}
			return
		}
		for _, fd := range sortedMsgFields(x) {
			if fd.IsList() {
				l := x.Get(fd).List()
				for i := 0; i < l.Len(); i++ {
					walk(l.Get(i).Message())
				}
			} else {
				walk(x.Get(fd).Message())
			}
		}
	}
	walk(out.ProtoReflect())
	return out
}

// sharedNode reports two places of the tree that hold the very same message object.
func sharedNode(root proto.Message) (string, string, bool) {
	seen := map[proto.Message]string{}
	var a, b string
	found := false
	var walk func(m protoreflect.Message, path string)
	walk = func(m protoreflect.Message, path string) {
		if found || m.Descriptor().FullName() == "google.protobuf.Any" {
			return
		}
		fs := m.Descriptor().Fields()
		for i := 0; i < fs.Len() && !found; i++ {
			fd := fs.Get(i)
			if fd.Kind() != protoreflect.MessageKind || !m.Has(fd) {
				continue
			}
			visit := func(c protoreflect.Message, p string) {
				if prev, dup := seen[c.Interface()]; dup {
					a, b, found = prev, p, true
					return
				}
				seen[c.Interface()] = p
				walk(c, p)
			}
			if fd.IsList() {
				l := m.Get(fd).List()
				for j := 0; j < l.Len() && !found; j++ {
					visit(l.Get(j).Message(), fmt.Sprintf("%s/%s[%d]", path, fd.Name(), j))
				}
			} else {
				visit(m.Get(fd).Message(), path+"/"+string(fd.Name()))
			}
		}
	}
	walk(root.ProtoReflect(), "")
	return a, b, found
}

// sharedAcross reports an element object reachable from two different resources.
func sharedAcross(roots []fhir.Resource) (int, int, string, bool) {
	owner := map[proto.Message]int{}
	for i, r := range roots {
		hit, where := -1, ""
		walkMessages(r.ProtoReflect(), func(x protoreflect.Message) {
			if hit >= 0 || x.Interface() == proto.Message(r) {
				return
			}
			if o, ok := owner[x.Interface()]; ok && o != i {
				hit, where = o, string(x.Descriptor().Name())
				return
			}
			owner[x.Interface()] = i
		})
		if hit >= 0 {
			return hit, i, where, true
		}
	}
	return 0, 0, "", false
}

func outcomeText(r c18Result) string {
	switch {
	case r.panicked != "":
		return "panic: " + short(r.panicked, 120)
	case r.err != nil:
		return "error: " + short(r.err.Error(), 160)
	}
	return "nil"
}

func errKind(err error) string {
	if err == nil {
		return ""
	}
	return strings.Join(errClasses(err), ",")
}

func slotAt(root proto.Message, l loc) (protoreflect.Message, error) {
	p, fd, idx, err := resolve(root, l.steps)
	if err != nil {
		return nil, err
	}
	if idx >= 0 {
		return p.Get(fd).List().Get(idx).Message(), nil
	}
	return p.Get(fd).Message(), nil
}

// addedSlot returns what the named field of the element at l holds now (last entry of a list).
func addedSlot(root proto.Message, l loc, name string) (protoreflect.Message, error) {
	parent, err := elementAt(root, l)
	if err != nil {
		return nil, err
	}
	fd := fieldByFHIRName(parent.Descriptor(), name)
	if fd == nil || fd.Kind() != protoreflect.MessageKind || !parent.Has(fd) {
		return nil, fmt.Errorf("no such populated field")
	}
	if fd.IsList() {
		l := parent.Get(fd).List()
		return l.Get(l.Len() - 1).Message(), nil
	}
	return parent.Get(fd).Message(), nil
}

// fhirScalar renders the value of a FHIR primitive as the JSON scalar it denotes: strings
// and codes as text (typed codes through the enum value's FHIR code), numbers, booleans.
func fhirScalar(m proto.Message) (string, bool) {
	r := m.ProtoReflect()
	d := r.Descriptor()
	v := d.Fields().ByName("value")
	if v == nil || !isPrimitiveDesc(d) {
		return "", false
	}
	switch v.Kind() {
	case protoreflect.StringKind:
		return "s:" + r.Get(v).String(), true
	case protoreflect.Int32Kind, protoreflect.Sint32Kind, protoreflect.Int64Kind:
		return fmt.Sprintf("n:%d", r.Get(v).Int()), true
	case protoreflect.Uint32Kind:
		return fmt.Sprintf("n:%d", r.Get(v).Uint()), true
	case protoreflect.BoolKind:
		return fmt.Sprintf("b:%v", r.Get(v).Bool()), true
	case protoreflect.EnumKind:
		ev := v.Enum().Values().ByNumber(r.Get(v).Enum())
		if ev == nil {
			return "", false
		}
		if proto.HasExtension(ev.Options(), apb.E_FhirOriginalCode) {
			return "s:" + proto.GetExtension(ev.Options(), apb.E_FhirOriginalCode).(string), true
		}
		return "s:" + strings.ToLower(strings.ReplaceAll(string(ev.Name()), "_", "-")), true
	}
	return "", false
}

// jsonScalarEquivalent: both messages are FHIR primitives that denote the same JSON scalar
// (the only sense in which a value of another type can be "the value" of a slot).
func jsonScalarEquivalent(slot, value proto.Message) bool {
	if w, inner := wrapperAlt(slot.ProtoReflect()); w != nil {
		slot = inner.Interface()
	}
	a, ok1 := fhirScalar(slot)
	b, ok2 := fhirScalar(value)
	return ok1 && ok2 && a == b
}

// diffSummary lists the locations (field-number paths) at which two resources differ.
func diffSummary(a, b proto.Message) string {
	var out []string
	var walk func(x, y protoreflect.Message, path string)
	walk = func(x, y protoreflect.Message, path string) {
		if len(out) > 6 {
			return
		}
		if x.Descriptor() != y.Descriptor() {
			out = append(out, path+": type "+string(x.Descriptor().Name())+" vs "+string(y.Descriptor().Name()))
			return
		}
		fs := x.Descriptor().Fields()
		for i := 0; i < fs.Len(); i++ {
			fd := fs.Get(i)
			p := path + "/" + string(fd.Name())
			hx, hy := x.Has(fd), y.Has(fd)
			if !hx && !hy {
				continue
			}
			if hx != hy {
				out = append(out, fmt.Sprintf("%s: present %v vs %v", p, hx, hy))
				continue
			}
			switch {
			case fd.IsList():
				lx, ly := x.Get(fd).List(), y.Get(fd).List()
				if lx.Len() != ly.Len() {
					out = append(out, fmt.Sprintf("%s: %d vs %d entries", p, lx.Len(), ly.Len()))
					continue
				}
				for j := 0; j < lx.Len(); j++ {
					if fd.Kind() == protoreflect.MessageKind {
						walk(lx.Get(j).Message(), ly.Get(j).Message(), fmt.Sprintf("%s[%d]", p, j))
					} else if lx.Get(j).String() != ly.Get(j).String() {
						out = append(out, fmt.Sprintf("%s[%d]: %v vs %v", p, j, lx.Get(j), ly.Get(j)))
					}
				}
			case fd.Kind() == protoreflect.MessageKind:
				walk(x.Get(fd).Message(), y.Get(fd).Message(), p)
			default:
				if !x.Get(fd).Equal(y.Get(fd)) {
					out = append(out, fmt.Sprintf("%s: %v vs %v", p, short(fmt.Sprint(x.Get(fd).Interface()), 40), short(fmt.Sprint(y.Get(fd).Interface()), 40)))
				}
			}
		}
	}
	walk(a.ProtoReflect(), b.ProtoReflect(), "")
	if len(out) == 0 {
		if proto.Equal(a, b) {
			return "(no difference)"
		}
		return "(differs in unknown fields or presence)"
	}
	sort.Strings(out)
	return strings.Join(out, "; ")
}

func execC18(t *testing.T, c *Case) (v *Verdict) {
	v = &Verdict{}
	v.Stats.Runs = 1
	if c.C18 == nil {
		v.Infra = "case has no c18 section"
		return v
	}
	e := &c18Exec{c: c, v: v, cache: map[string]*patch.Expression{}, cacheE: map[string]error{}}
	defer func() {
		if p := recover(); p != nil {
			v.Infra = bubblePanic(p, &v.Stats)
		}
	}()
	var sdig string
	runBubble(t, func(t *testing.T) {
		start := time.Now()
		time.Sleep(time.Duration(c.ClockMs) * time.Millisecond)
		v.Stats.SubRuns++
		in, err := buildInputs(c)
		if err != nil {
			v.Infra = "inputs: " + err.Error()
			return
		}
		r := &runCtx{c: c, stats: &v.Stats, in: in}
		setRun(r)
		defer setRun(nil)
		installWrap() // stays installed: package-level patch functions compile inside the operation
		defer removeWrap()

		cl := c.C18.Clients
		private := make([]fhir.Resource, len(cl))
		for ci := range cl {
			if cl[ci].Res < 0 || cl[ci].Res >= len(in.resources) {
				v.Infra = "bad resource index"
				return
			}
			private[ci] = proto.Clone(in.resources[cl[ci].Res]).(fhir.Resource)
		}
		outs := make([][]string, len(cl))
		runClient := func(ci int, oc *opCtx, yield func()) {
			for oi := range cl[ci].Ops {
				if v.Infra != "" {
					return
				}
				yield()
				outs[ci] = append(outs[ci], e.stepOp(r, oc, in, private[ci], ci, oi, &cl[ci].Ops[oi]))
			}
		}
		if c.Knobs.NoSched || len(cl) == 1 {
			for ci := range cl {
				oc := newOpCtx(0)
				r.setRootOp(oc)
				runClient(ci, oc, func() {})
			}
			r.setRootOp(nil)
		} else {
			sc := newSched(c.Tape, c.Knobs.SwitchThr, 20000)
			r.attach(sc)
			r.taskOps = make([]*opCtx, len(cl))
			panics := make([]string, len(cl))
			for ci := range cl {
				ci := ci
				sc.spawn(func(tk *task) {
					defer func() {
						if p := recover(); p != nil {
							panics[ci] = fmt.Sprint(p)
						}
					}()
					oc := newOpCtx(0)
					r.setTaskOp(tk.id, oc)
					runClient(ci, oc, func() { sc.yield(ypOpBoundary, -1) })
					r.setTaskOp(tk.id, nil)
				})
			}
			if err := sc.run(nil); err != nil {
				v.Infra = err.Error()
				return
			}
			r.detach(sc)
			for ci, p := range panics {
				if p != "" {
					v.Infra = fmt.Sprintf("client %d harness panic: %s", ci, p)
					return
				}
			}
			sdig = fmt.Sprintf("%x", sc.sdig)
			v.Stats.Yields += sc.steps
			v.Stats.Switches += sc.switches
			v.Stats.Faults = addN(v.Stats.Faults, "preempt", sc.switches)
			v.Stats.probeN("two-clients-inside-same-node", sc.overlapNode)
		}
		for _, rv := range e.rejected {
			if !bytes.Equal(msgBytes(rv.value), rv.bytes) {
				e.violate("patch-atomicity", "rejected-value-changed-later", rv.where+"\n  the operation failed, so its value never became part of the resource - yet the value object was modified by a later operation of the run")
				break
			}
		}
		v.Stats.probeN("rejected-values-rechecked", len(e.rejected))
		// ... and no part of a rejected value may sit in any resource
		inRes := map[proto.Message]bool{}
		for _, pr := range private {
			walkMessages(pr.ProtoReflect(), func(x protoreflect.Message) { inRes[x.Interface()] = true })
		}
		for _, rv := range e.rejected {
			leaked := false
			walkMessages(rv.value.ProtoReflect(), func(x protoreflect.Message) {
				if inRes[x.Interface()] {
					leaked = true
				}
			})
			if leaked && len(v.Violations) == 0 {
				e.violate("patch-atomicity", "rejected-value-retained", rv.where+"\n  the operation failed, yet (part of) its value object is now an element of a resource")
				break
			}
		}
		if a, b, what, shared := sharedAcross(private); shared && len(v.Violations) == 0 {
			e.violate("patch-model", "aliased-across-resources", fmt.Sprintf("after the histories, the resources of client %d and client %d hold the very same %s object: patching one resource will change the other", a, b, what))
		}
		for ci := range outs {
			e.out = append(e.out, strings.Join(outs[ci], "|"))
		}
		v.Stats.SimTimeMs += time.Since(start).Milliseconds()
	})
	v.SchedDigest = digest(sdig)
	v.OutcomeDigest = digest(strings.Join(e.out, "\n"))
	return v
}
