package verifsim

// A Case is the complete, JSON-serialisable description of one simulated run:
// gen(seed, run, mode, tier) -> Case is a pure function, exec(Case) -> Verdict is a
// pure function of the case and the code under test. Replay files are Cases.

import (
	"encoding/json"
	"os"
)

type Knobs struct {
	SwitchThr  int  `json:"switch_thr"`            // 0..256: probability*256 that a yield point switches
	GCEvery    int  `json:"gc_every,omitempty"`    // root calls runtime.GC() every n hand-backs (0: never)
	MidCompile int  `json:"mid_compile,omitempty"` // root runs a Compile every n hand-backs (0: never)
	GapDays    int  `json:"gap_days,omitempty"`    // root sleeps this long between concurrent and reference pass
	NoSched    bool `json:"no_sched,omitempty"`    // run client ops sequentially on the root (fault-free baseline)
	ReuseOpts  bool `json:"reuse_opts,omitempty"`  // the same option VALUES are handed to several Compile / Evaluate calls
	GYields    bool `json:"gyields,omitempty"`     // statements touching process-wide state are yield points too (worker flag -gyields)
}

// SysVal describes a FHIRPath System value.
type SysVal struct {
	T string `json:"t"` // String Integer Decimal Boolean Date DateTime Time Quantity
	S string `json:"s"` // literal text (Quantity: "number|unit")
}

// VarSpec describes the value of an environment variable.
type VarSpec struct {
	Kind  string    `json:"kind"`             // sys | res | node | coll | sub | bad | nil
	Sys   *SysVal   `json:"sys,omitempty"`    // kind sys
	Res   int       `json:"res,omitempty"`    // kind res/node: resource index
	Node  int       `json:"node,omitempty"`   // kind node: pre-order message index inside the resource
	Items []VarSpec `json:"items,omitempty"`  // kind coll
	Spare int       `json:"spare,omitempty"`  // kind coll: spare capacity filled with sentinels
	SubOf int       `json:"sub_of,omitempty"` // kind sub: index of another var (a coll)
	From  int       `json:"from,omitempty"`
	To    int       `json:"to,omitempty"`
	Bad   string    `json:"bad,omitempty"` // kind bad: int | string | struct | ptr | slice
}

type ResSpec struct {
	Type string `json:"type"`           // proto full name
	B64  string `json:"b64"`            // deterministic wire bytes
	Text string `json:"text,omitempty"` // human-readable rendering (informational)
}

// COpt is a compile option.
type COpt struct {
	Kind string `json:"kind"` // fn | exp | perm
	Name string `json:"name,omitempty"`
	Fn   string `json:"fn,omitempty"` // callback catalogue key, e.g. yield, tick:86400000, fail:1, ident, badsig:...
}

// EOpt is an evaluate option.
type EOpt struct {
	Kind   string `json:"kind"` // var | time
	Name   string `json:"name,omitempty"`
	Var    int    `json:"var,omitempty"`
	TimeMs int64  `json:"time_ms,omitempty"`
	OffMin int    `json:"off_min,omitempty"`
}

type ProgSpec struct {
	Src   string `json:"src"`
	Patch bool   `json:"patch,omitempty"`
	Opts  []COpt `json:"opts,omitempty"`
}

// Op is one client operation.
type Op struct {
	Kind  string `json:"kind"` // eval | bool | string | int | str | patch
	Prog  int    `json:"prog"`
	Res   []int  `json:"res,omitempty"` // input resources (indices)
	Opts  []EOpt `json:"opts,omitempty"`
	FailN int    `json:"fail_n,omitempty"` // k>0: the k-th node entry of this op returns injected error
	// patch
	PatchOp string   `json:"patch_op,omitempty"` // add insert delete replace move
	Name    string   `json:"name,omitempty"`
	Index   int      `json:"index,omitempty"`
	Value   *ResSpec `json:"value,omitempty"`
}

// HistEvent is a Compile performed by the root at some point of a run's history.
type HistEvent struct {
	Prog ProgSpec `json:"prog"`
	// probes: sources that must (not) resolve afterwards are derived by the oracle
}

type Case struct {
	Mode  string `json:"mode"`
	Tier  string `json:"tier"`
	Seed  uint64 `json:"seed"`
	Run   int    `json:"run"`
	Shape string `json:"shape,omitempty"` // generator shape / directed prelude name
	Knobs Knobs  `json:"knobs"`

	Zones     []string    `json:"zones,omitempty"`    // one sub-run per zone
	MixZone   []string    `json:"mix_zone,omitempty"` // [compile zone, evaluate zone] extra sub-run
	ClockMs   int64       `json:"clock_ms,omitempty"` // root sleeps this long at bubble start
	Resources []ResSpec   `json:"resources,omitempty"`
	Vars      []VarSpec   `json:"vars,omitempty"`
	Programs  []ProgSpec  `json:"programs,omitempty"`
	Clients   [][]Op      `json:"clients,omitempty"`
	History   []HistEvent `json:"history,omitempty"`   // compiles done by the root before the clients start
	MidProgs  []ProgSpec  `json:"mid_progs,omitempty"` // compiles done by the root between client steps
	Tape      []uint16    `json:"tape,omitempty"`

	C17 *C17Case `json:"c17,omitempty"`
	C18 *C18Case `json:"c18,omitempty"`
}

// Violation is what an oracle reports.
type Violation struct {
	Property string `json:"property"`
	Oracle   string `json:"oracle"` // which check fired
	Class    string `json:"class"`  // stable signature used to decide "same violation" during minimisation
	Detail   string `json:"detail"`
}

// Verdict is the result of executing one case.
type Verdict struct {
	Violations    []Violation `json:"violations,omitempty"`
	Infra         string      `json:"infra,omitempty"` // harness trouble (never a violation)
	SchedDigest   string      `json:"sched_digest"`
	OutcomeDigest string      `json:"outcome_digest"`
	Stats         Stats       `json:"stats"`
}

func loadCase(path string) (*Case, error) {
	b, err := os.ReadFile(path)
	if err != nil {
		return nil, err
	}
	var c Case
	if err := json.Unmarshal(b, &c); err != nil {
		return nil, err
	}
	return &c, nil
}

func saveJSON(path string, v any) error {
	b, err := json.MarshalIndent(v, "", " ")
	if err != nil {
		return err
	}
	return os.WriteFile(path, b, 0o644)
}
