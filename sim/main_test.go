package verifsim

import (
	"encoding/json"
	"flag"
	"fmt"
	"os"
	"path/filepath"
	"regexp"
	"runtime"
	"sort"
	"strings"
	"testing"
	"time"

	"github.com/verily-src/fhirpath-go/internal/verifyield"
)

var (
	fMode     = flag.String("mode", "", "property mode: C03 C04 C17 C18")
	fSeed     = flag.Uint64("seed", 1, "VERIF_SEED")
	fFirst    = flag.Int("first", 0, "first run index")
	fRuns     = flag.Int("runs", 1, "number of runs")
	fTier     = flag.String("tier", "quick", "quick | thorough")
	fReplay   = flag.String("replay", "", "execute exactly this case file")
	fOut      = flag.String("out", "", "write the worker report (JSON) here")
	fCaseDir  = flag.String("casedir", "", "directory for failing case files")
	fDump     = flag.String("dump", "", "write the generated case of run -first here and exit")
	fRaceLog  = flag.String("racelog", "", "prefix given to GORACE log_path (to attribute race reports)")
	fBudget   = flag.Duration("budget", 0, "stop generating new runs after this much wall time (0: none)")
	fSamples  = flag.Int("samples", 3, "number of sample cases to include in the report")
	fMinimise = flag.String("minimise", "", "minimise this failing case file (driver use)")
	fNoRef    = flag.Bool("noref", false, "skip the isolated reference pass (race workers: the race detector is the oracle)")
	fClass    = flag.String("class", "", "violation class to preserve while minimising / to expect on replay")
	fGYields  = flag.Bool("gyields", false, "generated cases also switch tasks before statements touching process-wide state (the 'instr' pass)")
	fList     = flag.String("list", "", "comma-separated run indices to execute, in that order (instead of -first/-runs)")
)

type RunRecord struct {
	Run   int    `json:"run"`
	Shape string `json:"shape"`
	SDig  string `json:"sdig"`
	ODig  string `json:"odig"`
	Sw    int    `json:"sw"`
	NT    bool   `json:"nt"` // non-trivial by the mode's rule
}

type FoundViolation struct {
	Run       int       `json:"run"`
	Violation Violation `json:"violation"`
	CaseFile  string    `json:"case_file"`
}

type WorkerReport struct {
	Mode            string            `json:"mode"`
	Tier            string            `json:"tier"`
	Seed            uint64            `json:"seed"`
	First           int               `json:"first"`
	Requested       int               `json:"requested"`
	Executed        int               `json:"executed"`
	WallS           float64           `json:"wall_s"`
	Race            bool              `json:"race_build"`
	Stats           Stats             `json:"stats"`
	Records         []RunRecord       `json:"records"`
	Violations      []FoundViolation  `json:"violations"`
	ViolationCounts map[string]int    `json:"violation_counts,omitempty"`
	Infra           []string          `json:"infra"`
	Samples         []json.RawMessage `json:"samples"`
}

func genCase(mode string, seed uint64, run int, tier string) (*Case, error) {
	c, err := genCase0(mode, seed, run, tier)
	if c != nil && *fGYields {
		c.Knobs.GYields = true
	}
	return c, err
}

func genCase0(mode string, seed uint64, run int, tier string) (*Case, error) {
	bareAnyRate = 0.04
	if mode == "C18" {
		bareAnyRate = 0
	}
	switch mode {
	case "C04":
		return genC04(seed, run, tier), nil
	case "C03":
		return genC03(seed, run, tier), nil
	case "C17":
		return genC17(seed, run, tier), nil
	case "C18":
		return genC18(seed, run, tier), nil
	}
	return nil, fmt.Errorf("unknown mode %q", mode)
}

func execCase(t *testing.T, c *Case) *Verdict {
	switch c.Mode {
	case "C04":
		return execC04(t, c)
	case "C03":
		return execC03(t, c)
	case "C17":
		return execC17(t, c)
	case "C18":
		return execC18(t, c)
	}
	return &Verdict{Infra: "unknown mode " + c.Mode}
}

// execGuard runs a case, converting a harness panic into infrastructure trouble and
// attributing new race reports to the case.
func execGuard(t *testing.T, c *Case) (v *Verdict) {
	before := raceErrors()
	func() {
		defer func() {
			if p := recover(); p != nil {
				v = &Verdict{Infra: fmt.Sprintf("harness panic: %v", p)}
			}
		}()
		v = execCase(t, c)
	}()
	if n := raceErrors(); n > before {
		class, detail := raceClass()
		v.Violations = append([]Violation{{Property: c.Mode, Oracle: "race-detector", Class: "race:" + class, Detail: detail}}, v.Violations...)
	}
	return v
}

var goRoot = runtime.GOROOT() + "/src/"

var raceFrameRe = regexp.MustCompile(`^\s+(/\S+\.go):(\d+)`)

// raceClass reads the ThreadSanitizer log of this process and returns a stable
// signature (the two access sites) and the report text.
func raceClass() (string, string) {
	if *fRaceLog == "" {
		return "unattributed", "data race reported by the race detector (no log path configured)"
	}
	path := fmt.Sprintf("%s.%d", *fRaceLog, os.Getpid())
	b, err := os.ReadFile(path)
	if err != nil {
		return "unattributed", "data race reported; log unreadable: " + err.Error()
	}
	text := string(b)
	// first report only
	if i := strings.Index(text, "=================="); i >= 0 {
		rest := text[i+18:]
		if j := strings.Index(rest, "=================="); j >= 0 {
			text = rest[:j]
		}
	}
	var sites []string
	lines := strings.Split(text, "\n")
	for i, ln := range lines {
		l := strings.TrimSpace(ln)
		if strings.HasPrefix(l, "Write at") || strings.HasPrefix(l, "Read at") || strings.HasPrefix(l, "Previous write at") || strings.HasPrefix(l, "Previous read at") {
			site, fallback := "", ""
			for k := i + 1; k < len(lines) && strings.TrimSpace(lines[k]) != ""; k++ {
				if m := raceFrameRe.FindStringSubmatch(lines[k]); m != nil {
					f := m[1]
					if strings.Contains(f, "/verifsim/") || strings.Contains(f, "/verif/sim/") {
						continue
					}
					s := filepath.Base(filepath.Dir(f)) + "/" + filepath.Base(f) + ":" + m[2]
					if fallback == "" {
						fallback = s
					}
					// the signature names the innermost frame inside the library, not the runtime or a dependency
					if strings.Contains(f, goRoot) || strings.Contains(f, "/pkg/mod/") {
						continue
					}
					site = s
					break
				}
			}
			if site == "" {
				site = fallback
			}
			if site == "" {
				site = "harness-frame"
			}
			sites = append(sites, site)
		}
	}
	sort.Strings(sites)
	return strings.Join(sites, "~"), short(text, 3000)
}

func nonTrivial(c *Case, v *Verdict) bool {
	switch c.Mode {
	case "C04":
		return len(c.Clients) >= 2 && v.Stats.Switches >= 1
	case "C03":
		return v.Stats.Ops >= 1 && (v.Stats.Probes["alias-config"] > 0 || v.Stats.Faults["node-error"] > 0 || v.Stats.Switches > 0)
	case "C17":
		return v.Stats.Ops >= 1
	case "C18":
		return v.Stats.Ops >= 1
	}
	return true
}

func TestSim(t *testing.T) {
	if *fMode == "" && *fReplay == "" && *fMinimise == "" {
		t.Skip("no -mode given")
	}
	processTables = snapTables()
	_ = setLocal("UTC")
	verifyield.Hook = yieldHook
	verifyield.LockHook = lockHook
	verifyield.GoHook, verifyield.BlockHook, verifyield.UnblockHook, verifyield.WrapHook = goHook, blockHook, unblockHook, wrapHook

	if *fMinimise != "" {
		runMinimise(t)
		return
	}

	rep := &WorkerReport{Mode: *fMode, Tier: *fTier, Seed: *fSeed, First: *fFirst, Requested: *fRuns, Race: raceEnabled}
	start := time.Now()
	fmt.Printf("VERIF_SEED=%d mode=%s tier=%s first=%d runs=%d race=%v\n", *fSeed, *fMode, *fTier, *fFirst, *fRuns, raceEnabled)

	finish := func() {
		rep.WallS = time.Since(start).Seconds()
		if *fOut != "" {
			if err := saveJSON(*fOut, rep); err != nil {
				t.Fatalf("writing report: %v", err)
			}
		}
	}

	if *fReplay != "" {
		c, err := loadCase(*fReplay)
		if err != nil {
			t.Fatalf("replay: %v", err)
		}
		rep.Mode = c.Mode
		v := execGuard(t, c)
		rep.Executed = 1
		rep.Stats = v.Stats
		rep.Records = append(rep.Records, RunRecord{Run: c.Run, Shape: c.Shape, SDig: v.SchedDigest, ODig: v.OutcomeDigest, Sw: v.Stats.Switches})
		if v.Infra != "" {
			rep.Infra = append(rep.Infra, v.Infra)
		}
		for _, vi := range v.Violations {
			rep.Violations = append(rep.Violations, FoundViolation{Run: c.Run, Violation: vi, CaseFile: *fReplay})
			fmt.Printf("REPLAY-VIOLATION property=%s oracle=%s class=%s\n  %s\n", vi.Property, vi.Oracle, vi.Class, vi.Detail)
		}
		finish()
		return
	}

	if *fDump != "" {
		c, err := genCase(*fMode, *fSeed, *fFirst, *fTier)
		if err != nil {
			t.Fatal(err)
		}
		if err := saveJSON(*fDump, c); err != nil {
			t.Fatal(err)
		}
		return
	}

	seenClass := map[string]bool{}
	order := make([]int, 0, *fRuns)
	if *fList != "" {
		for _, f := range strings.Split(*fList, ",") {
			var k int
			if _, err := fmt.Sscanf(strings.TrimSpace(f), "%d", &k); err != nil {
				t.Fatalf("bad -list entry %q", f)
			}
			order = append(order, k)
		}
	} else {
		for i := 0; i < *fRuns; i++ {
			order = append(order, *fFirst+i)
		}
	}
	for _, run := range order {
		if *fBudget > 0 && time.Since(start) > *fBudget {
			break
		}
		c, err := genCase(*fMode, *fSeed, run, *fTier)
		if err != nil {
			t.Fatal(err)
		}
		v := execGuard(t, c)
		rep.Executed++
		rep.Stats.add(&v.Stats)
		rep.Records = append(rep.Records, RunRecord{Run: run, Shape: c.Shape, SDig: v.SchedDigest, ODig: v.OutcomeDigest, Sw: v.Stats.Switches, NT: nonTrivial(c, v)})
		if len(rep.Samples) < *fSamples {
			rep.Samples = append(rep.Samples, sampleOf(c, v))
		}
		if v.Infra != "" {
			rep.Infra = append(rep.Infra, fmt.Sprintf("run %d: %s", run, v.Infra))
			if len(rep.Infra) > 3 {
				break
			}
			continue
		}
		if len(v.Violations) > 0 {
			file := ""
			fresh := false
			for _, vi := range v.Violations {
				if !seenClass[vi.Oracle+"/"+vi.Class] {
					fresh = true
				}
			}
			if fresh && *fCaseDir != "" {
				_ = os.MkdirAll(*fCaseDir, 0o755)
				file = filepath.Join(*fCaseDir, fmt.Sprintf("%s-%d-%d.json", c.Mode, c.Seed, run))
				if err := saveJSON(file, c); err != nil {
					t.Fatalf("writing case: %v", err)
				}
			}
			for _, vi := range v.Violations {
				k := vi.Oracle + "/" + vi.Class
				rep.ViolationCounts = addN(rep.ViolationCounts, k, 1)
				if seenClass[k] {
					continue // one case per distinct class and process; the rest is counted
				}
				seenClass[k] = true
				rep.Violations = append(rep.Violations, FoundViolation{Run: run, Violation: vi, CaseFile: file})
			}
			if raceEnabled || len(seenClass) >= 12 {
				break // ThreadSanitizer de-duplicates per process; the driver minimises in fresh processes
			}
		}
	}
	finish()
}

// sampleOf renders a case in short form for the evidence file.
func sampleOf(c *Case, v *Verdict) json.RawMessage {
	type sample struct {
		Run      int      `json:"run"`
		Shape    string   `json:"shape"`
		Zones    []string `json:"zones,omitempty"`
		Programs []string `json:"programs,omitempty"`
		Clients  []string `json:"clients,omitempty"`
		Detail   any      `json:"detail,omitempty"`
		Switches int      `json:"switches"`
		Ops      int      `json:"ops"`
	}
	s := sample{Run: c.Run, Shape: c.Shape, Zones: c.Zones, Switches: v.Stats.Switches, Ops: v.Stats.Ops}
	for _, p := range c.Programs {
		s.Programs = append(s.Programs, short(p.Src, 160))
	}
	for _, cl := range c.Clients {
		var b strings.Builder
		for _, op := range cl {
			fmt.Fprintf(&b, "%s(p%d", op.Kind, op.Prog)
			if op.PatchOp != "" {
				fmt.Fprintf(&b, ",%s", op.PatchOp)
			}
			if op.FailN > 0 {
				fmt.Fprintf(&b, ",fail@%d", op.FailN)
			}
			for _, o := range op.Opts {
				if o.Kind == "var" {
					fmt.Fprintf(&b, ",%%%s", o.Name)
				} else {
					b.WriteString(",time")
				}
			}
			b.WriteString(") ")
		}
		s.Clients = append(s.Clients, strings.TrimSpace(b.String()))
	}
	if c.C17 != nil {
		s.Detail = c.C17.sample()
	}
	if c.C18 != nil {
		s.Detail = c.C18.sample()
	}
	b, _ := json.Marshal(s)
	return b
}
