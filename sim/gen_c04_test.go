package verifsim

import (
	"fmt"
	"strings"

	"google.golang.org/protobuf/proto"
	"google.golang.org/protobuf/reflect/protoreflect"
	"google.golang.org/protobuf/reflect/protoregistry"
	"google.golang.org/protobuf/types/known/anypb"
)

var allZones = []string{"UTC", "Asia/Kolkata", "America/St_Johns", "Pacific/Chatham", "Australia/Lord_Howe", "Europe/Dublin"}

const (
	streamC04 = 4
	streamC03 = 3
	streamC17 = 17
	streamC18 = 18
)

type genCtx struct {
	r     rng
	tier  string
	c     *Case
	res   []proto.Message
	cbs   []COpt
	nCB   int
	vname []string
	vkind map[string]int
}

func (g *genCtx) thorough() bool { return g.tier == "thorough" }

func (g *genCtx) genResources(n int) {
	for i := 0; i < n; i++ {
		rg := &resGen{r: g.r, maxDepth: 3 + g.r.n(3), fill: 0.25 + 0.35*g.r.Float64(), budget: 80 + g.r.n(260)}
		t := pick(g.r, rootTypes)
		if i > 0 && g.r.p(0.3) {
			// same type as resource 0: programs then apply to both
			t = string(g.res[0].ProtoReflect().Descriptor().Name())
		}
		m := rg.genResource(t)
		g.res = append(g.res, m)
		g.c.Resources = append(g.c.Resources, encodeMessage(m))
	}
}

func sysValFor(r rng, k int) *SysVal {
	switch k {
	case kStr:
		return &SysVal{"String", pick(r, strVocab)}
	case kInt:
		return &SysVal{"Integer", fmt.Sprint(pick(r, []int{0, 1, 2, 7, 42, -3}))}
	case kDec:
		return &SysVal{"Decimal", pick(r, []string{"0.5", "1.0", "3.14", "-2.25"})}
	case kBool:
		return &SysVal{"Boolean", pick(r, []string{"true", "false"})}
	case kDate:
		return &SysVal{"Date", pick(r, []string{"2020-02-29", "2020-03-07", "2020-03", "2020"})}
	case kDateTime:
		return &SysVal{"DateTime", strings.TrimPrefix(pick(r, dateTimeLits), "@")}
	case kTime:
		return &SysVal{"Time", pick(r, []string{"12:30", "00:00:00", "23:59:59.999"})}
	default:
		return &SysVal{"Quantity", pick(r, []string{"1|day", "5|mg", "1.5|kg", "2|months"})}
	}
}

func countNodes(m proto.Message) int {
	n := 0
	walkMessages(m.ProtoReflect(), func(protoreflect.Message) { n++ })
	return n
}

// genVars adds env-variable values. alias raises the share of aliasing shapes
// (the resource itself, its nodes, spare capacity, sub-slices).
func (g *genCtx) genVars(n int, alias float64) {
	for i := 0; i < n; i++ {
		name := fmt.Sprintf("v%d", i)
		var vs VarSpec
		kind := kUnknown
		switch {
		case g.r.p(alias * 0.25):
			vs = VarSpec{Kind: "res", Res: g.r.n(len(g.res))}
			kind = kComplex
		case g.r.p(alias * 0.3):
			ri := g.r.n(len(g.res))
			vs = VarSpec{Kind: "node", Res: ri, Node: g.r.n(countNodes(g.res[ri]))}
		case g.r.p(alias * 0.12):
			vs = VarSpec{Kind: "cr", Res: g.r.n(len(g.res))}
			kind = kComplex
		case i > 0 && g.c.Vars[i-1].Kind == "coll" && g.r.p(alias*0.5):
			l := len(g.c.Vars[i-1].Items)
			f := g.r.n(l + 1)
			vs = VarSpec{Kind: "sub", SubOf: i - 1, From: f, To: f + g.r.n(l-f+1)}
		case g.r.p(0.45):
			k := pick(g.r, []int{kStr, kInt, kDec, kBool, kDate, kDateTime, kTime, kQty})
			vs = VarSpec{Kind: "sys", Sys: sysValFor(g.r, k)}
			kind = k
		default:
			m := g.r.n(4)
			if g.r.p(0.35) {
				m = 0
			}
			vs = VarSpec{Kind: "coll", Spare: pick(g.r, []int{0, 0, 1, 2, 4})}
			if g.r.p(alias) && vs.Spare == 0 {
				vs.Spare = 1 + g.r.n(3)
			}
			homogeneous := -1
			if g.r.p(0.2) {
				// all items of one kind (functions with a fast path for uniform collections), not in order
				homogeneous = pick(g.r, []int{kStr, kStr, kInt, kDateTime})
				m = 2 + g.r.n(4)
			}
			if g.r.p(0.1) {
				// a big collection, its size on either side of a power of two: code that takes another route
				// above some size (a "don't pin a big array" copy, a hash instead of a scan, a parallel walk)
				// never meets the handful of items ordinary values have
				m = pick(g.r, []int{15, 17, 31, 33, 64, 65, 127, 129, 255, 256, 257, 300, 511, 513, 1023, 1025})
				if g.r.p(0.5) {
					homogeneous = pick(g.r, []int{kStr, kInt, kDateTime})
				}
			}
			for j := 0; j < m; j++ {
				if homogeneous >= 0 {
					vs.Items = append(vs.Items, VarSpec{Kind: "sys", Sys: sysValFor(g.r, homogeneous)})
					continue
				}
				if g.r.p(alias * 0.15) {
					vs.Items = append(vs.Items, VarSpec{Kind: "cr", Res: g.r.n(len(g.res))})
				} else if g.r.p(0.5) {
					ri := g.r.n(len(g.res))
					vs.Items = append(vs.Items, VarSpec{Kind: "node", Res: ri, Node: g.r.n(countNodes(g.res[ri]))})
				} else {
					vs.Items = append(vs.Items, VarSpec{Kind: "sys", Sys: sysValFor(g.r, pick(g.r, []int{kStr, kInt, kBool, kDateTime}))})
				}
			}
		}
		g.c.Vars = append(g.c.Vars, vs)
		g.vname = append(g.vname, name)
		g.vkind[name] = kind
	}
}

func (g *genCtx) stdCallbacks() {
	g.cbs = []COpt{
		{Kind: "fn", Name: "y", Fn: "yield"},
		{Kind: "fn", Name: "y2", Fn: "yield"},
		{Kind: "fn", Name: "idf", Fn: "ident"},
		{Kind: "fn", Name: "t1", Fn: fmt.Sprintf("tick:%d", pick(g.r, []int64{1, 1000, 3600_000, 36 * 3600_000, 86400_000, 400 * 86400_000}))},
	}
	if g.r.p(0.25) {
		g.cbs = append(g.cbs, COpt{Kind: "fn", Name: "f1", Fn: "fail:1"})
	}
	if g.r.p(0.4) {
		g.cbs = append(g.cbs, COpt{Kind: "fn", Name: "re", Fn: "reenter"})
	}
	if g.r.p(0.2) {
		g.cbs = append(g.cbs, COpt{Kind: "fn", Name: "rc", Fn: fmt.Sprintf("recurse:%d", pick(g.r, []int{1, 1, 2, 3, 17, 20}))})
	}
}

// genProgram generates one evaluate program with its compile options.
func (g *genCtx) genProgram(ri int, cbRate float64, depth int) (ProgSpec, []string) {
	pg := &progGen{r: g.r, res: g.res, cb: g.cbs, cbUsed: map[string]bool{}, varsS: g.vname, varsK: g.vkind, varUsed: map[string]bool{}, cbRate: cbRate, exp: g.r.p(0.3)}
	src := pg.program(ri, depth)
	var opts []COpt
	if pg.usedExp || g.r.p(0.1) {
		opts = append(opts, COpt{Kind: "exp"})
	}
	for _, cb := range g.cbs {
		if pg.cbUsed[cb.Name] || g.r.p(0.1) {
			opts = append(opts, cb)
		}
	}
	if g.r.p(0.07) {
		opts = append(opts, COpt{Kind: "perm"})
	}
	var used []string
	for _, n := range g.vname {
		if pg.varUsed[n] {
			used = append(used, n)
		}
	}
	return ProgSpec{Src: src, Opts: opts}, used
}

func (g *genCtx) evalOptsFor(used []string) []EOpt {
	var opts []EOpt
	for i, n := range g.vname {
		inUse := false
		for _, u := range used {
			if u == n {
				inUse = true
			}
		}
		if (inUse && g.r.p(0.93)) || (!inUse && g.r.p(0.15)) {
			vi := i
			if g.r.p(0.3) {
				// the same name bound to another value of the same shape: the same compiled expression
				// must not remember what an earlier evaluation saw under that name
				var same []int
				for j := range g.c.Vars {
					if j != i && g.c.Vars[j].Kind == g.c.Vars[i].Kind && (g.c.Vars[i].Sys == nil || (g.c.Vars[j].Sys != nil && g.c.Vars[j].Sys.T == g.c.Vars[i].Sys.T)) && g.c.Vars[j].Kind != "sub" {
						same = append(same, j)
					}
				}
				if len(same) > 0 {
					vi = pick(g.r, same)
				}
			}
			opts = append(opts, EOpt{Kind: "var", Name: n, Var: vi})
		}
	}
	if g.r.p(0.2) {
		opts = append(opts, EOpt{Kind: "time", TimeMs: pick(g.r, instantVocabSec)*1000 + int64(g.r.n(1000)), OffMin: pick(g.r, []int{0, 0, -210, -150, 330, 765, 825, 60})})
	}
	// shuffle
	g.r.Shuffle(len(opts), func(i, j int) { opts[i], opts[j] = opts[j], opts[i] })
	return opts
}

func (g *genCtx) genTape(n int) {
	t := make([]uint16, n)
	for i := range t {
		t[i] = uint16(g.r.Uint32())
	}
	g.c.Tape = t
}

func (g *genCtx) genZones() {
	n := 2
	if g.thorough() {
		n = 3
	}
	zs := append([]string(nil), allZones[:4]...)
	if g.thorough() {
		zs = append([]string(nil), allZones...)
	}
	g.r.Shuffle(len(zs), func(i, j int) { zs[i], zs[j] = zs[j], zs[i] })
	g.c.Zones = zs[:n]
	if g.r.p(0.35) {
		g.c.MixZone = []string{pick(g.r, zs), pick(g.r, zs)}
	}
}

func (g *genCtx) genClock() {
	// offsets from the bubble's epoch 2000-01-01T00:00:00Z, biased to edges
	day := int64(86400_000)
	g.c.ClockMs = pick(g.r, []int64{0, 59*day - 1, 59 * day, 60*day - 500, 366*day - 1, 7370*day + 15*3600_000, 7371 * day, 7372*day + 3*3600_000, 7609 * day, 8825*day - 1000, int64(g.r.n(14600)) * day, int64(g.r.n(14600))*day + int64(g.r.n(86400_000))})
	g.c.Knobs.GapDays = 1 + g.r.n(1000)
}

// simplePatchOp builds a patch program and operation on resource ri (used by mode C04 to
// exercise shared patch expressions; mode C18 has its own, much broader generator).
func (g *genCtx) simplePatchOp(ri int) (ProgSpec, Op, bool) {
	pg := &progGen{r: g.r, res: g.res, cbUsed: map[string]bool{}, varUsed: map[string]bool{}}
	f := pg.rootFocus(ri)
	for try := 0; try < 8; try++ {
		p, nf := pg.path(f, 3)
		if nf.msg == nil || p == "$this" || strings.Contains(p, ".value") {
			continue
		}
		src := string(f.msg.Descriptor().Name()) + "." + p
		op := Op{Kind: "patch", Res: []int{ri}}
		switch g.r.n(3) {
		case 0:
			op.PatchOp = "delete"
		case 1:
			op.PatchOp = "replace"
			rg := &resGen{r: g.r, maxDepth: 2, fill: 0.4, budget: 20}
			val := rg.genValueFor(nf.msg.Descriptor())
			if isEnumCode(nf.msg.Descriptor()) && g.r.p(0.6) {
				// the typed code given as a plain String: goes through patch's code normalisation
				if sc, ok := fhirScalar(val); ok && strings.HasPrefix(sc, "s:") {
					s := newMessage(findDesc("String"))
					s.Set(s.Descriptor().Fields().ByName("value"), protoreflect.ValueOfString(sc[2:]))
					val = s.Interface()
				}
			}
			v := encodeMessage(val)
			op.Value = &v
		default:
			op.PatchOp = "move"
		}
		return ProgSpec{Src: src, Patch: true}, op, true
	}
	return ProgSpec{}, Op{}, false
}

func (g *genCtx) historySpec(earlier []string) ProgSpec {
	name := pick(g.r, []string{"cust", "myFn", "helper", "zed", "where", "select", "now", "join", "exists", "trace"})
	if len(earlier) > 0 && g.r.p(0.35) {
		name = pick(g.r, earlier)
	}
	var opts []COpt
	if g.r.p(0.3) {
		opts = append(opts, COpt{Kind: "exp"})
	}
	first := COpt{Kind: "fn", Name: name, Fn: pick(g.r, []string{"ident", "ident", "empty", "const"})}
	opts = append(opts, first)
	if g.r.p(0.25) {
		// duplicate in one list - half of the time the very same option (with reuse: the same VALUE twice)
		dup := COpt{Kind: "fn", Name: name, Fn: "ident"}
		if g.r.p(0.5) {
			dup = first
		}
		opts = append(opts, dup)
	}
	if g.r.p(0.3) {
		opts = append(opts, COpt{Kind: "exp"})
	}
	if g.r.p(0.15) {
		opts = append(opts, COpt{Kind: "perm"})
	}
	src := name + "()"
	if g.r.p(0.3) {
		src = "Patient.name." + name + "()"
	}
	if g.r.p(0.12) {
		// a failing option list that carries the experimental functions or a custom function under
		// an experimental name: nothing of it may survive into the next Compile
		opts = append([]COpt{{Kind: "exp"}}, opts...)
		if g.r.p(0.5) {
			opts = append([]COpt{{Kind: "fn", Name: "join", Fn: "const"}}, opts...)
		}
		opts = append(opts, COpt{Kind: "fn", Name: pick(g.r, []string{"where", "exists", name}), Fn: "ident"})
	}
	if g.r.p(0.15) {
		// a Compile that fails in the parser or the visitor: nothing of it may survive into later Compiles
		src = pick(g.r, []string{"Patient.name.", "1 +", "nosuchfn()", "Patient.name.where(", "'unterminated", "Patient..name", "%", "@2020-13-45", name + "(", name + "(1, 2, 3)", "Patient.name.select(" + name + "().nosuchfn())"})
	}
	return ProgSpec{Src: src, Opts: opts, Patch: g.r.p(0.2)}
}

func genC04(seed uint64, run int, tier string) *Case {
	if run < len(c04Shapes) {
		c := c04Shapes[run](newRng(seed, uint64(run)*64+streamC04), tier)
		c.Mode, c.Tier, c.Seed, c.Run = "C04", tier, seed, run
		return c
	}
	if r0 := newRng(seed, uint64(run)*64+streamC04+32); r0.p(0.12) {
		// a directed shape again, with this run's own details
		c := pick(r0, c04Shapes)(newRng(seed, uint64(run)*64+streamC04), tier)
		c.Mode, c.Tier, c.Seed, c.Run = "C04", tier, seed, run
		return c
	} else if *fGYields && r0.p(0.3) {
		// the pass that also switches at process-wide state spends a good part of its runs on the
		// shapes that are about process-wide state (memos keyed by pattern, literal, type name)
		shape := pick(r0, []func(rng, string) *Case{shapePatterns, shapePatterns, shapePatterns, shapeLiteralSharing, shapeTypeHistory, shapeTypedCallbacks})
		c := shape(newRng(seed, uint64(run)*64+streamC04), tier)
		c.Mode, c.Tier, c.Seed, c.Run = "C04", tier, seed, run
		return c
	}
	g := &genCtx{r: newRng(seed, uint64(run)*64+streamC04), tier: tier, c: &Case{Mode: "C04", Tier: tier, Seed: seed, Run: run, Shape: "swarm"}, vkind: map[string]int{}}
	c := g.c
	c.Knobs.SwitchThr = pick(g.r, []int{13, 77, 77, 256, 256})
	c.Knobs.GCEvery = pick(g.r, []int{0, 0, 0, 0, 23, 101})
	c.Knobs.MidCompile = pick(g.r, []int{0, 0, 3, 11, 29})
	c.Knobs.NoSched = g.r.p(0.08)
	c.Knobs.ReuseOpts = g.r.p(0.5)
	g.genResources(1 + g.r.n(3))
	g.genVars(g.r.n(4), 0.2)
	g.stdCallbacks()
	nProg := 2 + g.r.n(4)
	depth := 2 + g.r.n(2)
	cbRate := pick(g.r, []float64{0.05, 0.2, 0.4})
	if g.thorough() {
		nProg = 3 + g.r.n(6)
		depth = 2 + g.r.n(3)
	}
	type pinfo struct {
		ri   int
		used []string
		pop  *Op
	}
	var infos []pinfo
	for i := 0; i < nProg; i++ {
		ri := g.r.n(len(g.res))
		if g.r.p(0.18) {
			if ps, op, ok := g.simplePatchOp(ri); ok {
				c.Programs = append(c.Programs, ps)
				o := op
				infos = append(infos, pinfo{ri: ri, pop: &o})
				continue
			}
		}
		ps, used := g.genProgram(ri, cbRate, depth)
		c.Programs = append(c.Programs, ps)
		infos = append(infos, pinfo{ri: ri, used: used})
	}
	// a couple of bare time programs so the independent clock oracle always has work
	if g.r.p(0.4) {
		c.Programs = append(c.Programs, ProgSpec{Src: pick(g.r, []string{"now()", "today()", "timeOfDay()"})})
		infos = append(infos, pinfo{ri: 0})
	}
	nClients := 1 + g.r.n(4)
	maxOps := 5
	if g.thorough() {
		nClients = 1 + g.r.n(6)
		maxOps = 10
	}
	for ci := 0; ci < nClients; ci++ {
		var ops []Op
		n := 1 + g.r.n(maxOps)
		for oi := 0; oi < n; oi++ {
			pi := g.r.n(len(c.Programs))
			inf := infos[pi]
			if inf.pop != nil {
				op := *inf.pop
				op.Prog = pi
				ops = append(ops, op)
				continue
			}
			op := Op{Kind: "eval", Prog: pi, Res: []int{inf.ri}}
			switch g.r.n(12) {
			case 0:
				op.Kind = "bool"
			case 1:
				op.Kind = "string"
			case 2:
				op.Kind = "int"
			case 3:
				op.Kind = "str"
			case 4:
				op.Kind = "evalmut" // evaluate, the caller edits what it got back and its (private) input, evaluate again
			}
			if g.r.p(0.1) {
				op.Res = append(op.Res, g.r.n(len(g.res)))
			}
			if g.r.p(0.05) {
				op.Res = []int{g.r.n(len(g.res))}
			}
			if g.r.p(0.03) {
				op.Res = nil
			}
			op.Opts = g.evalOptsFor(inf.used)
			if g.r.p(0.08) {
				op.FailN = 1 + g.r.n(10)
			}
			ops = append(ops, op)
		}
		c.Clients = append(c.Clients, ops)
	}
	var earlier []string
	for i, n := 0, g.r.n(5); i < n; i++ {
		h := g.historySpec(earlier)
		for _, o := range h.Opts {
			if o.Kind == "fn" {
				earlier = append(earlier, o.Name)
			}
		}
		c.History = append(c.History, HistEvent{Prog: h})
	}
	for i, n := 0, 1+g.r.n(3); i < n; i++ {
		h := g.historySpec([]string{"y", "t1", "idf"})
		c.MidProgs = append(c.MidProgs, h)
	}
	g.genZones()
	g.genClock()
	g.genTape(1200)
	return c
}

// ---------------------------------------------------------------------------
// Directed prelude: one case shape per reach probe. Structure is fixed, details
// (values, positions, tape) still come from the seed.

var c04Shapes = []func(r rng, tier string) *Case{
	shapeCanary, shapeWhereSwitch, shapeTickBetweenNow, shapeTZLiteral, shapePatchShared, shapeStallCompile, shapeClockExact, shapeOrder, shapeTypedCallbacks, shapePatterns, shapeTypeHistory, shapeCallerChanges, shapeZoneElements, shapeBigWalk, shapeRootCollection, shapePermissiveLegacy, shapeLiteralSharing, shapeSharedCollections, shapeMixedNamespaces, shapeBigSets, shapeTwinTypesA, shapeTwinTypesB,
}

func baseShape(r rng, tier, name string, types ...string) *genCtx {
	g := &genCtx{r: r, tier: tier, c: &Case{Shape: name}, vkind: map[string]int{}}
	for _, t := range types {
		rg := &resGen{r: g.r, maxDepth: 4, fill: 0.6, budget: 200}
		m := rg.genResource(t)
		g.res = append(g.res, m)
		g.c.Resources = append(g.c.Resources, encodeMessage(m))
	}
	g.stdCallbacks()
	g.c.Zones = []string{"UTC", "America/St_Johns"}
	g.genClock()
	g.genTape(800)
	return g
}

func shapeWhereSwitch(r rng, tier string) *Case {
	g := baseShape(r, tier, "where-switch", "Patient")
	c := g.c
	c.Knobs.SwitchThr = 256
	opts := []COpt{{Kind: "fn", Name: "y", Fn: "yield"}}
	c.Programs = []ProgSpec{
		{Src: "Patient.descendants().where(y().exists()).count()", Opts: opts},
		{Src: "Patient.children().select(y().children().count())", Opts: opts},
		{Src: "Patient.descendants().all(y().empty().not())", Opts: opts},
	}
	for ci := 0; ci < 3; ci++ {
		var ops []Op
		for oi := 0; oi < 3; oi++ {
			ops = append(ops, Op{Kind: "eval", Prog: r.n(3), Res: []int{0}})
		}
		c.Clients = append(c.Clients, ops)
	}
	return c
}

func shapeTickBetweenNow(r rng, tier string) *Case {
	g := baseShape(r, tier, "tick-between-now", "Patient")
	c := g.c
	c.Knobs.SwitchThr = 77
	ms := pick(r, []int64{1, 1000, 36 * 3600_000, 400 * 86400_000})
	opts := []COpt{{Kind: "fn", Name: "t1", Fn: fmt.Sprintf("tick:%d", ms)}, {Kind: "fn", Name: "y", Fn: "yield"}}
	c.Programs = []ProgSpec{
		{Src: "now().t1() = now()", Opts: opts},
		{Src: "today().t1().select(today()) = today()", Opts: opts},
		{Src: "Patient.children().select(t1().select(now())).distinct().count()", Opts: opts},
		{Src: "timeOfDay().t1().select(timeOfDay()).y() = timeOfDay()", Opts: opts},
		{Src: "now()", Opts: opts},
		{Src: "now().t1().select(now() + 1 day)", Opts: opts},
	}
	for ci := 0; ci < 2+r.n(2); ci++ {
		var ops []Op
		for oi := 0; oi < 4; oi++ {
			op := Op{Kind: "eval", Prog: r.n(len(c.Programs)), Res: []int{0}}
			if r.p(0.3) {
				op.Opts = []EOpt{{Kind: "time", TimeMs: pick(r, instantVocabSec) * 1000, OffMin: pick(r, []int{0, -210, 765})}}
			}
			ops = append(ops, op)
		}
		c.Clients = append(c.Clients, ops)
	}
	return c
}

func shapeTZLiteral(r rng, tier string) *Case {
	g := baseShape(r, tier, "tz-literal", "Patient", "Observation")
	c := g.c
	c.Knobs.SwitchThr = 13
	c.Zones = []string{"UTC", "America/St_Johns", "Pacific/Chatham"}
	c.MixZone = []string{"America/St_Johns", "Asia/Kolkata"}
	for i := 0; i < 6; i++ {
		lit := pick(r, dateTimeLits[:13])
		c.Programs = append(c.Programs, ProgSpec{Src: fmt.Sprintf("%s %s %s", lit, pick(r, []string{"+", "-"}), pick(r, []string{"1 day", "24 hours", "1 month", "6 months", "1 week", "1 year"}))})
	}
	c.Programs = append(c.Programs, ProgSpec{Src: "Observation.descendants().where($this is dateTime).select($this + 1 day)"})
	c.Programs = append(c.Programs, ProgSpec{Src: "Patient.descendants().where($this is instant).select($this + 6 months)"})
	for ci := 0; ci < 2; ci++ {
		var ops []Op
		for pi := range c.Programs {
			ops = append(ops, Op{Kind: "eval", Prog: pi, Res: []int{0, 1}})
		}
		c.Clients = append(c.Clients, ops)
	}
	return c
}

func shapePatchShared(r rng, tier string) *Case {
	g := baseShape(r, tier, "patch-shared", "Patient")
	c := g.c
	c.Knobs.SwitchThr = 256
	for i := 0; i < 12 && len(c.Programs) < 3; i++ {
		if ps, op, ok := g.simplePatchOp(0); ok && op.PatchOp != "move" {
			c.Programs = append(c.Programs, ps)
			for ci := 0; ci < 3; ci++ {
				if len(c.Clients) <= ci {
					c.Clients = append(c.Clients, nil)
				}
				o := op
				o.Prog = len(c.Programs) - 1
				c.Clients[ci] = append(c.Clients[ci], o)
			}
		}
	}
	if len(c.Programs) == 0 {
		c.Programs = []ProgSpec{{Src: "Patient.id", Patch: true}}
		c.Clients = [][]Op{{{Kind: "patch", PatchOp: "delete", Res: []int{0}}}, {{Kind: "patch", PatchOp: "delete", Res: []int{0}}}}
	}
	return c
}

func shapeStallCompile(r rng, tier string) *Case {
	g := baseShape(r, tier, "stall-compile", "Patient")
	c := g.c
	c.Knobs.SwitchThr = 256
	c.Knobs.MidCompile = 2
	opts := []COpt{{Kind: "fn", Name: "y", Fn: "yield"}}
	c.Programs = []ProgSpec{
		{Src: "Patient.descendants().select(y()).count()", Opts: opts},
		{Src: "Patient.children().count()"},
	}
	c.MidProgs = []ProgSpec{
		{Src: "y()", Opts: []COpt{{Kind: "fn", Name: "y", Fn: "empty"}}},
		{Src: "Patient.name.where(true)", Opts: []COpt{{Kind: "fn", Name: "where", Fn: "empty"}}},
		{Src: "count()", Opts: []COpt{{Kind: "exp"}, {Kind: "fn", Name: "join", Fn: "empty"}}},
	}
	c.Clients = [][]Op{
		{{Kind: "eval", Prog: 0, Res: []int{0}}},
		{{Kind: "eval", Prog: 1, Res: []int{0}}, {Kind: "eval", Prog: 1, Res: []int{0}}, {Kind: "eval", Prog: 1, Res: []int{0}}, {Kind: "eval", Prog: 0, Res: []int{0}}},
		{{Kind: "eval", Prog: 1, Res: []int{0}}, {Kind: "eval", Prog: 1, Res: []int{0}}, {Kind: "eval", Prog: 1, Res: []int{0}}},
	}
	// tape: let client 0 enter its evaluation, then prefer the others
	for i := range c.Tape {
		if i > 6 {
			c.Tape[i] = c.Tape[i]&0xff00 | uint16(1+r.n(2))
		}
	}
	return c
}

// shapeOrder: "gives the same result every time" includes the order of a result. Collection
// functions over many items, evaluated repeatedly by several clients and once more in isolation.
func shapeOrder(r rng, tier string) *Case {
	g := baseShape(r, tier, "order", pick(r, []string{"Patient", "Observation", "Encounter", "Questionnaire"}))
	c := g.c
	c.Knobs.SwitchThr = 77
	root := string(g.res[0].ProtoReflect().Descriptor().Name())
	for _, src := range []string{
		"%s.descendants().distinct()", "%s.descendants().distinct().first()", "%s.children().children().distinct().take(4)",
		"%s.descendants().where($this is string).distinct()", "%s.descendants().select($this.toString()).distinct().skip(2).take(3)",
		"%s.descendants().intersect(%s.descendants()).count()", "%s.descendants().exclude(%s.children()).first()",
		"%s.descendants().distinct().last()", "%s.children().descendants().distinct()[3]", "%s.descendants().repeat(children()).take(5)",
		"%s.descendants().distinct().isDistinct()", "%s.descendants().extension.distinct()",
	} {
		c.Programs = append(c.Programs, ProgSpec{Src: strings.ReplaceAll(src, "%s", root)})
	}
	for ci := 0; ci < 3; ci++ {
		var ops []Op
		for oi := 0; oi < 5; oi++ {
			ops = append(ops, Op{Kind: "eval", Prog: r.n(len(c.Programs)), Res: []int{0}})
		}
		c.Clients = append(c.Clients, ops)
	}
	return c
}

// shapeTypedCallbacks: custom functions that take arguments, whose argument expressions yield
// and tick, shared by all clients: per-invocation state of the function adapter must not be shared.
func shapeTypedCallbacks(r rng, tier string) *Case {
	g := baseShape(r, tier, "typed-callbacks", "Patient")
	c := g.c
	c.Knobs.SwitchThr = 256
	opts := []COpt{{Kind: "fn", Name: "y", Fn: "yield"}, {Kind: "fn", Name: "ps", Fn: "probeS"}, {Kind: "fn", Name: "pi", Fn: "probeI"}}
	c.Programs = []ProgSpec{
		{Src: "Patient.name.ps(y().count().toString())", Opts: opts},
		{Src: "Patient.children().ps('a' & y().count().toString())", Opts: opts},
		{Src: "Patient.descendants().take(3).pi(y().count())", Opts: opts},
		{Src: "Patient.name.first().pi(y().given.count() + 1)", Opts: opts},
		{Src: "Patient.telecom.ps(Patient.name.ps('inner').count().toString())", Opts: opts},
		{Src: "Patient.children().select(ps(y().toString().length().toString()))", Opts: opts},
	}
	for ci := 0; ci < 3; ci++ {
		var ops []Op
		for oi := 0; oi < 4; oi++ {
			ops = append(ops, Op{Kind: "eval", Prog: r.n(len(c.Programs)), Res: []int{0}})
		}
		c.Clients = append(c.Clients, ops)
	}
	return c
}

// shapePatterns: functions that could keep process-wide memos (compiled patterns, parsed
// literals, unit tables): several clients use different patterns/literals through the same
// functions; in the instrumented build a switch can fall between the steps of such a memo.
func shapePatterns(r rng, tier string) *Case {
	g := baseShape(r, tier, "patterns", "Patient")
	c := g.c
	c.Knobs.SwitchThr = 256
	pats := []string{"^[a-z]+$", ".*a.*", "[A-Z].*", "\\\\d+", "(a|b)+", "^x", "e$"}
	// process-wide memos are cold only for keys the process has not seen: every run brings patterns
	// of its own (an alternative that never matches keeps the meaning of the pattern)
	for i := range pats {
		if r.p(0.7) {
			pats[i] = fmt.Sprintf("%s|zq%dz", pats[i], r.n(1000000))
		}
	}
	subj := []string{"'alpha'", "'Beta'", "'x1'", "'42'", "'abba'", "Patient.name.given.first()", "Patient.id"}
	// most programs get a pattern no other program of the run has (so that several evaluations are
	// inside the first use of DIFFERENT patterns at the same time), the rest share one
	own := func() string {
		p := pick(r, pats)
		if r.p(0.75) {
			p = fmt.Sprintf("%s|zq%dz", strings.SplitN(p, "|zq", 2)[0], r.n(1000000))
		}
		return p
	}
	nRegex := 8
	var lit []int
	for i := 0; i < nRegex; i++ {
		switch x := r.n(10); {
		case x < 8 || i < 4: // (a literal subject: the pattern function is certain to run)
			c.Programs = append(c.Programs, ProgSpec{Src: fmt.Sprintf("%s.matches('%s')", pick(r, subj[:5]), own())})
			lit = append(lit, len(c.Programs)-1)
		case x < 9:
			c.Programs = append(c.Programs, ProgSpec{Src: fmt.Sprintf("%s.replaceMatches('%s', '_')", pick(r, subj), own())})
		default:
			c.Programs = append(c.Programs, ProgSpec{Src: fmt.Sprintf("Patient.descendants().where($this is string).where($this.matches('%s')).count()", own())})
		}
	}
	u := r.n(100000)
	c.Programs = append(c.Programs, ProgSpec{Src: fmt.Sprintf("(5.%d 'mg').toQuantity() = (5.%d 'mg')", u, u)}, ProgSpec{Src: fmt.Sprintf("@2020-03-07T12:00:00.%03d-03:30 + 1 day", u%1000)},
		ProgSpec{Src: fmt.Sprintf("'1.%d'.toDecimal() + 2", u)}, ProgSpec{Src: fmt.Sprintf("'k%d' & 'x'", u)}, ProgSpec{Src: fmt.Sprintf("(%d 'cm') < (%d 'cm')", u, u+1)})
	for ci := 0; ci < 3; ci++ {
		var ops []Op
		for oi := 0; oi < 6; oi++ {
			k := r.n(len(c.Programs))
			if oi < 3 {
				k = pick(r, lit) // every client starts inside the pattern functions
			}
			ops = append(ops, Op{Kind: "eval", Prog: k, Res: []int{0}})
		}
		c.Clients = append(c.Clients, ops)
	}
	return c
}

// shapeTypeHistory: what a Compile resolves (type specifiers, function names) must not depend
// on which other sources were compiled earlier in the process. Unqualified type names are
// compiled and evaluated while qualified variants of the same names (System.X / FHIR.X) are
// compiled in the history and mid-flight; the end-of-run recompile must behave like the first.
func shapeTypeHistory(r rng, tier string) *Case {
	g := baseShape(r, tier, "type-history", "Observation", "Patient")
	c := g.c
	c.Knobs.SwitchThr = 77
	c.Knobs.MidCompile = 1 + r.n(3)
	names := []string{"Quantity", "string", "String", "boolean", "Boolean", "integer", "Integer", "decimal", "Decimal", "dateTime", "DateTime", "date", "Date", "time", "Time", "code", "Coding", "Period"}
	r.Shuffle(len(names), func(i, j int) { names[i], names[j] = names[j], names[i] })
	for _, n := range names[:6] {
		root := pick(r, []string{"Observation", "Patient"})
		switch r.n(4) {
		case 0:
			c.Programs = append(c.Programs, ProgSpec{Src: fmt.Sprintf("%s.descendants().where($this is %s).count()", root, n)})
		case 1:
			c.Programs = append(c.Programs, ProgSpec{Src: fmt.Sprintf("%s.descendants().ofType(%s).count()", root, n)})
		case 2:
			c.Programs = append(c.Programs, ProgSpec{Src: fmt.Sprintf("%s.children().select($this as %s).count()", root, n)})
		default:
			c.Programs = append(c.Programs, ProgSpec{Src: fmt.Sprintf("(Observation.value is %s) or (1 'mg' is %s) or ('a' is %s) or (true is %s)", n, n, n, n)})
		}
	}
	c.Programs = append(c.Programs, ProgSpec{Src: "(Observation.value is Quantity) or (1 'mg' is Quantity)"}, ProgSpec{Src: "Observation.descendants().ofType(Quantity).count() + (1 'mg').ofType(Quantity).count()"})
	qual := func() ProgSpec {
		n := pick(r, append([]string{"Quantity"}, names[:6]...))
		ns := pick(r, []string{"System", "FHIR"})
		return ProgSpec{Src: pick(r, []string{"1 'mg' is %s.%s", "'a' is %s.%s", "Observation.value is %s.%s", "{} as %s.%s", "Patient.active.ofType(%s.%s)"}), Patch: r.p(0.15)}.withArgs(ns, n)
	}
	for i, n := 0, r.n(4); i < n; i++ {
		c.History = append(c.History, HistEvent{Prog: qual()})
	}
	for i := 0; i < 4; i++ {
		c.MidProgs = append(c.MidProgs, qual())
	}
	for ci := 0; ci < 2+r.n(2); ci++ {
		var ops []Op
		for oi := 0; oi < 4; oi++ {
			ops = append(ops, Op{Kind: "eval", Prog: r.n(len(c.Programs)), Res: []int{0, 1}})
		}
		c.Clients = append(c.Clients, ops)
	}
	return c
}

// nodesNamed returns the pre-order indices of the messages of m whose type name is one of names.
func nodesNamed(m proto.Message, names ...string) []int {
	var out []int
	i := 0
	walkMessages(m.ProtoReflect(), func(x protoreflect.Message) {
		n := string(x.Descriptor().Name())
		for _, w := range names {
			if n == w {
				out = append(out, i)
			}
		}
		i++
	})
	return out
}

// shapeMixedNamespaces: one node of a compiled expression (a type specifier, an operator, a
// conversion) meets System values in one evaluation and FHIR elements of the like-named type
// in the next - through a variable bound to one and then the other, and through collections
// holding both. What the node does for the second must not depend on having seen the first.
func shapeMixedNamespaces(r rng, tier string) *Case {
	var g *genCtx
	for try := 0; ; try++ {
		g = baseShape(r, tier, "mixed-namespaces", "Observation", "Patient")
		if len(nodesNamed(g.res[0], "Quantity")) > 0 || try > 6 {
			break
		}
	}
	c := g.c
	c.Knobs.SwitchThr = pick(r, []int{0, 77, 256})
	type pair struct {
		tname string   // the unqualified type name both resolve to
		sys   *SysVal  // the System value
		fhir  []string // message names of the FHIR counterpart
	}
	pairs := []pair{
		{"Quantity", &SysVal{"Quantity", "5|mg"}, []string{"Quantity"}},
		{"String", &SysVal{"String", "abc"}, []string{"String"}},
		{"Integer", &SysVal{"Integer", "7"}, []string{"Integer", "PositiveInt", "UnsignedInt"}},
		{"Boolean", &SysVal{"Boolean", "true"}, []string{"Boolean"}},
		{"DateTime", &SysVal{"DateTime", "2020-03-07T12:00:00Z"}, []string{"DateTime", "Instant"}},
		{"Date", &SysVal{"Date", "2020-03-07"}, []string{"Date"}},
		{"Decimal", &SysVal{"Decimal", "1.50"}, []string{"Decimal"}},
	}
	forms := []string{"%%tv is %s", "%%tv as %s", "%%tv.ofType(%s)", "iif(%%tv is %s, 'y', 'n')", "%%tv.select($this is %s)", "%%tv.where($this is %s).count()", "(%%tv as %s).exists()", "%%tv.select($this as %s).count()"}
	plain := []string{"%tv", "iif(true, %tv, 'none')", "%tv.select($this)", "%tv = %tv", "%tv.toString()", "%tv.select($this = $this)", "%tv ~ %tv", "%tv.distinct().count()", "%tv.first() | %tv.last()"[:0] + "%tv.combine(%tv).distinct().count()", "%tv & 'x'"}
	var bindings [][2]int // (System var, FHIR var) of one type name
	var names []string
	for _, p := range pairs {
		ri := 0
		idx := nodesNamed(g.res[0], p.fhir...)
		if len(idx) == 0 {
			ri, idx = 1, nodesNamed(g.res[1], p.fhir...)
		}
		if len(idx) == 0 {
			continue
		}
		node := VarSpec{Kind: "node", Res: ri, Node: pick(r, idx)}
		sv := VarSpec{Kind: "sys", Sys: p.sys}
		base := len(c.Vars)
		c.Vars = append(c.Vars, sv, node,
			VarSpec{Kind: "coll", Items: []VarSpec{sv, node}}, VarSpec{Kind: "coll", Items: []VarSpec{node, sv}})
		bindings = append(bindings, [2]int{base, base + 1}, [2]int{base + 2, base + 3})
		names = append(names, p.tname, p.tname)
	}
	if len(bindings) == 0 {
		return shapeTypeHistory(r, tier)
	}
	type pb struct{ prog, bind int }
	var progs []pb
	for i := 0; i < 6; i++ {
		b := r.n(len(bindings))
		src := pick(r, plain)
		if r.p(0.8) {
			src = fmt.Sprintf(pick(r, forms), pick(r, []string{names[b], names[b], "System." + names[b], "FHIR." + names[b]}))
		}
		c.Programs = append(c.Programs, ProgSpec{Src: src})
		progs = append(progs, pb{len(c.Programs) - 1, b})
	}
	for ci := 0; ci < 2+r.n(2); ci++ {
		var ops []Op
		for oi := 0; oi < 5; oi++ {
			p := pick(r, progs)
			ops = append(ops, Op{Kind: pick(r, []string{"eval", "eval", "eval", "bool", "string", "evalmut"}), Prog: p.prog, Res: []int{0, 1},
				Opts: []EOpt{{Kind: "var", Name: "tv", Var: bindings[p.bind][r.n(2)]}}})
		}
		c.Clients = append(c.Clients, ops)
	}
	return c
}

func (p ProgSpec) withArgs(a ...any) ProgSpec {
	p.Src = fmt.Sprintf(p.Src, a...)
	return p
}

// shapeCallerChanges: the result of an evaluation is a function of the inputs as they are at
// that moment. A client evaluates on a private copy, changes the copy the way a caller may
// (including re-marshalling its contained entries in place) and evaluates again.
func shapeCallerChanges(r rng, tier string) *Case {
	g := baseShape(r, tier, "caller-changes", pick(r, []string{"Patient", "Observation", "Encounter"}))
	c := g.c
	// make sure there is something contained
	root := g.res[0].ProtoReflect()
	if cf := root.Descriptor().Fields().ByName("contained"); cf != nil && root.Get(cf).List().Len() == 0 {
		rg := &resGen{r: r, maxDepth: 3, fill: 0.5, budget: 60}
		for i := 0; i < 1+r.n(2); i++ {
			cr := newMessage(findDesc("ContainedResource"))
			rg.fillContained(cr, 1)
			a, _ := anypb.New(cr.Interface())
			root.Mutable(cf).List().Append(protoreflect.ValueOfMessage(a.ProtoReflect()))
		}
		c.Resources[0] = encodeMessage(g.res[0])
	}
	c.Knobs.SwitchThr = 77
	rn := string(root.Descriptor().Name())
	for _, src := range []string{"%s.contained.id", "%s.id", "%s.contained.descendants().count()", "%s.descendants().where($this is id)", "%s.contained.children().first()", "%s.contained.id.first() & %s.id", "%s.contained.where(id.exists()).id"} {
		c.Programs = append(c.Programs, ProgSpec{Src: strings.ReplaceAll(src, "%s", rn)})
	}
	for ci := 0; ci < 2+r.n(2); ci++ {
		var ops []Op
		for oi := 0; oi < 4; oi++ {
			k := "evalmut"
			if r.p(0.3) {
				k = "eval"
			}
			ops = append(ops, Op{Kind: k, Prog: r.n(len(c.Programs)), Res: []int{0}})
		}
		c.Clients = append(c.Clients, ops)
	}
	return c
}

// dstEdges: instants half a day before a daylight-saving change of each simulated zone, with the
// offset that zone uses at that instant.
var dstEdges = []struct {
	zone string
	sec  int64
	tz   string
}{
	{"America/St_Johns", 1583595000, "-03:30"}, {"America/St_Johns", 1604154600, "-02:30"},
	{"Pacific/Chatham", 1585952100, "+13:45"}, {"Pacific/Chatham", 1601075700, "+12:45"},
	{"Europe/Dublin", 1585396800, "+00:00"}, {"Europe/Dublin", 1603537200, "+01:00"},
	{"Australia/Lord_Howe", 1585962000, "+11:00"}, {"Australia/Lord_Howe", 1601688600, "+10:30"},
	{"Asia/Kolkata", 1583562600, "+05:30"}, {"UTC", 1583582400, "Z"},
}

// shapeZoneElements: date/time ELEMENTS of the input (not literals) whose written offset is the one
// the process zone uses at that instant, at every precision, next to that zone's daylight-saving
// changes; calendar arithmetic and conversions on them must not depend on the process zone.
func shapeZoneElements(r rng, tier string) *Case {
	g := baseShape(r, tier, "zone-elements", pick(r, []string{"Observation", "Patient", "Encounter"}))
	c := g.c
	c.Knobs.SwitchThr = 13
	c.Zones = []string{"UTC", "America/St_Johns", "Pacific/Chatham"}
	if tier == "thorough" {
		c.Zones = append(c.Zones, "Europe/Dublin", "Australia/Lord_Howe")
	}
	c.MixZone = []string{pick(r, c.Zones), pick(r, c.Zones)}
	n := 0
	walkMessages(g.res[0].ProtoReflect(), func(m protoreflect.Message) {
		d := m.Descriptor()
		vus, tz, pf := d.Fields().ByName("value_us"), d.Fields().ByName("timezone"), d.Fields().ByName("precision")
		if vus == nil || tz == nil || pf == nil || d.Name() == "Time" {
			return
		}
		e := pick(r, dstEdges)
		us := e.sec*1_000_000 + int64(r.n(3))*3600_000_000
		vals := pf.Enum().Values()
		pv := vals.Get(1 + r.n(vals.Len()-1))
		switch string(pv.Name()) {
		case "MICROSECOND":
			us += int64(1 + r.n(999999))
		case "MILLISECOND":
			us += int64(1+r.n(999)) * 1000
		}
		m.Set(vus, protoreflect.ValueOfInt64(us))
		m.Set(tz, protoreflect.ValueOfString(e.tz))
		m.Set(pf, protoreflect.ValueOfEnum(pv.Number()))
		n++
	})
	c.Resources[0] = encodeMessage(g.res[0])
	root := string(g.res[0].ProtoReflect().Descriptor().Name())
	for _, t := range []string{"dateTime", "instant"} {
		for _, q := range []string{"1 day", "24 hours", "1 month", "1 week", "1 year", "2 days"} {
			if r.p(0.5) {
				c.Programs = append(c.Programs, ProgSpec{Src: fmt.Sprintf("%s.descendants().where($this is %s).select($this %s %s)", root, t, pick(r, []string{"+", "-"}), q)})
			}
		}
		c.Programs = append(c.Programs,
			ProgSpec{Src: fmt.Sprintf("%s.descendants().where($this is %s).select(($this + 1 day) > $this)", root, t)},
			ProgSpec{Src: fmt.Sprintf("%s.descendants().where($this is %s).select($this.toString())", root, t)},
			ProgSpec{Src: fmt.Sprintf("%s.descendants().where($this is %s).select(($this + 1 day).toString())", root, t)},
			ProgSpec{Src: fmt.Sprintf("%s.descendants().where($this is %s).select($this.toDate())", root, t)})
	}
	for ci := 0; ci < 2; ci++ {
		var ops []Op
		for pi := range c.Programs {
			if r.p(0.6) {
				ops = append(ops, Op{Kind: "eval", Prog: pi, Res: []int{0}})
			}
		}
		if len(ops) == 0 {
			ops = append(ops, Op{Kind: "eval", Prog: 0, Res: []int{0}})
		}
		c.Clients = append(c.Clients, ops)
	}
	_ = n
	return c
}

// shapeBigWalk: evaluations that visit well over a thousand nodes, with OverrideTime values far
// from and close to the clock, and ticks in the middle: nothing but now()/today()/timeOfDay() may
// look at the clock, so a long walk must behave the same whatever the clock shows.
func shapeBigWalk(r rng, tier string) *Case {
	g := &genCtx{r: r, tier: tier, c: &Case{Shape: "big-walk"}, vkind: map[string]int{}}
	rg := &resGen{r: r, maxDepth: 5, fill: 0.75, budget: 900}
	m := rg.genResource(pick(r, []string{"Patient", "Questionnaire", "Bundle"}))
	g.res = append(g.res, m)
	g.c.Resources = append(g.c.Resources, encodeMessage(m))
	g.stdCallbacks()
	g.c.Zones = []string{"UTC", "America/St_Johns"}
	g.genClock()
	g.genTape(800)
	c := g.c
	c.Knobs.SwitchThr = 13
	root := string(m.ProtoReflect().Descriptor().Name())
	opts := []COpt{{Kind: "fn", Name: "t1", Fn: "tick:45000"}}
	c.Programs = []ProgSpec{
		{Src: root + ".descendants().count()"}, {Src: root + ".descendants().descendants().count() > 0"},
		{Src: root + ".children().t1().descendants().count()", Opts: opts}, {Src: root + ".descendants().where($this is string).count()"},
		{Src: root + ".repeat(children()).count()"},
	}
	startMs := int64(946684800000) + c.ClockMs // the bubble starts at 2000-01-01T00:00:00Z
	for ci := 0; ci < 2; ci++ {
		var ops []Op
		for oi := 0; oi < 3; oi++ {
			op := Op{Kind: "eval", Prog: r.n(len(c.Programs)), Res: []int{0, 0, 0}}
			switch r.n(4) {
			case 0:
				op.Opts = []EOpt{{Kind: "time", TimeMs: startMs - int64(r.n(20000))}} // just behind the clock
			case 1:
				op.Opts = []EOpt{{Kind: "time", TimeMs: pick(r, instantVocabSec) * 1000}} // far from the clock
			case 2:
				op.Opts = []EOpt{{Kind: "time", TimeMs: startMs + int64(r.n(20000))}} // just ahead of the clock
			}
			ops = append(ops, op)
		}
		c.Clients = append(c.Clients, ops)
	}
	return c
}

// shapeRootCollection: collection functions applied to the input collection itself (several
// resources): what Evaluate returns may be a window of a buffer the library owns - it must stay
// what it was while other evaluations run (result stability).
func shapeRootCollection(r rng, tier string) *Case {
	g := baseShape(r, tier, "root-collection", "Patient", "Observation", "Patient")
	c := g.c
	c.Knobs.SwitchThr = 77
	for _, src := range []string{"tail()", "skip(1)", "skip(1).take(1)", "$this.tail()", "take(2)", "first()", "last()", "where(true).tail()", "tail().id", "skip(2)", "$this", "tail().tail()", "select($this).skip(1)", "%context.tail()", "exclude(first())", "intersect(tail())"} {
		c.Programs = append(c.Programs, ProgSpec{Src: src})
	}
	for ci := 0; ci < 3; ci++ {
		var ops []Op
		for oi := 0; oi < 5; oi++ {
			res := [][]int{{0, 1, 2}, {2, 1, 0}, {0, 1}, {1, 2, 0, 1}, {0, 0, 2}}[r.n(5)]
			ops = append(ops, Op{Kind: "eval", Prog: r.n(len(c.Programs)), Res: res})
		}
		c.Clients = append(c.Clients, ops)
	}
	return c
}

// shapePermissiveLegacy: expressions compiled with Permissive() that really take the legacy
// branches (snake_case names, the pseudo-fields of date/time primitives, field access on
// non-elements), shared by several clients from their very first evaluation.
func shapePermissiveLegacy(r rng, tier string) *Case {
	g := baseShape(r, tier, "permissive-legacy", "Patient")
	c := g.c
	c.Knobs.SwitchThr = 256
	perm := []COpt{{Kind: "perm"}}
	for _, src := range []string{"Patient.birth_date", "Patient.birthDate.value_us", "Patient.birthDate.precision", "Patient.birthDate.timezone", "Patient.name.given.value.length", "Patient.managing_organization", "Patient.name.family.value.nosuch",
		"Patient.deceased", "Patient.multiple_birth", "Patient.meta.last_updated.value_us", "Patient.name.given_x", "Patient.active.value.value"} {
		c.Programs = append(c.Programs, ProgSpec{Src: src, Opts: perm})
	}
	for ci := 0; ci < 3; ci++ {
		var ops []Op
		for pi := range c.Programs {
			if r.p(0.7) {
				ops = append(ops, Op{Kind: "eval", Prog: pi, Res: []int{0}})
			}
		}
		if len(ops) == 0 {
			ops = []Op{{Kind: "eval", Prog: 0, Res: []int{0}}}
		}
		r.Shuffle(len(ops), func(i, j int) { ops[i], ops[j] = ops[j], ops[i] })
		c.Clients = append(c.Clients, ops)
	}
	return c
}

// shapeLiteralSharing: literals live in the compiled tree and are shared by every evaluation of
// the expression. Programs combine a literal with a variable that is bound to a DIFFERENT value
// in every operation, and render or compare the result: nothing an earlier evaluation derived
// from the literal may show in a later one.
func shapeLiteralSharing(r rng, tier string) *Case {
	g := baseShape(r, tier, "literal-sharing", "Patient")
	c := g.c
	c.Knobs.SwitchThr = 77
	q := func(v, u string) VarSpec { return VarSpec{Kind: "sys", Sys: &SysVal{"Quantity", v + "|" + u}} }
	sv := func(t, v string) VarSpec { return VarSpec{Kind: "sys", Sys: &SysVal{t, v}} }
	c.Vars = []VarSpec{
		q("4", "mg"), q("10", "mg"), q("0.5", "mg"), q("7", "mg"), // 0-3 quantities
		sv("Decimal", "0.5"), sv("Decimal", "2.25"), sv("Decimal", "100.001"), // 4-6
		sv("Integer", "1"), sv("Integer", "7"), sv("Integer", "42"), // 7-9
		sv("String", "x"), sv("String", "longer text"), sv("String", ""), // 10-12
		q("1", "day"), q("3", "days"), q("2", "months"), // 13-15 durations
	}
	kinds := map[string][]int{"q": {0, 1, 2, 3}, "d": {4, 5, 6}, "i": {7, 8, 9}, "s": {10, 11, 12}, "t": {13, 14, 15}}
	progs := []struct{ src, v string }{
		{"(3 'mg' + %q).toString()", "q"}, {"(3 'mg' - %q).abs() = 7 'mg'", "q"}, {"(3 'mg' + %q) > 10 'mg'", "q"}, {"(%q + 3 'mg').toString()", "q"},
		{"(1.5 + %d).toString()", "d"}, {"(1.5 * %d).round(1)", "d"}, {"(10 - %i).toString()", "i"}, {"(10 div %i) + (10 mod %i)", "i"},
		{"('ab' + %s).length()", "s"}, {"('ab' & %s).upper()", "s"}, {"(@2020-01-31 + %t).toString()", "t"}, {"(@2020-03-07T12:00:00-03:30 + %t).toString()", "t"},
		{"(@T10:00:00 + 90 minutes).toString() & %s", "s"}, {"(5 'mg').toString() & (3 'mg' + %q).toString()", "q"},
	}
	for _, p := range progs {
		c.Programs = append(c.Programs, ProgSpec{Src: p.src})
	}
	for ci := 0; ci < 2+r.n(2); ci++ {
		var ops []Op
		for oi := 0; oi < 6; oi++ {
			pi := r.n(len(progs))
			k := progs[pi].v
			ops = append(ops, Op{Kind: pick(r, []string{"eval", "eval", "string"}), Prog: pi, Res: []int{0}, Opts: []EOpt{{Kind: "var", Name: k, Var: pick(r, kinds[k])}}})
		}
		c.Clients = append(c.Clients, ops)
	}
	return c
}

// shapeSharedCollections: environment collections (with spare capacity, sub-slices, homogeneous
// items) shared by all clients and sliced, filtered, projected and concatenated by every one of
// them: whatever one evaluation does with such a collection, the others must see it as supplied.
func shapeSharedCollections(r rng, tier string) *Case {
	g := baseShape(r, tier, "shared-collections", pick(r, []string{"Patient", "Observation", "Bundle"}))
	c := g.c
	c.Knobs.SwitchThr = 77
	g.genVars(3+r.n(2), 1.0)
	g.cbs = append(g.cbs, COpt{Kind: "fn", Name: "e0", Fn: "empty"}, COpt{Kind: "fn", Name: "f2", Fn: "failkeep:2"})
	type pi struct{ used []string }
	var infos []pi
	for i := 0; i < 6; i++ {
		ps, used := g.varProgram()
		c.Programs = append(c.Programs, ps)
		infos = append(infos, pi{used})
	}
	for ci := 0; ci < 3; ci++ {
		var ops []Op
		for oi := 0; oi < 4; oi++ {
			k := r.n(len(c.Programs))
			op := Op{Kind: "eval", Prog: k, Res: []int{0}}
			for _, n := range infos[k].used {
				for vi, vn := range g.vname {
					if vn == n {
						op.Opts = append(op.Opts, EOpt{Kind: "var", Name: n, Var: vi})
					}
				}
			}
			ops = append(ops, op)
		}
		c.Clients = append(c.Clients, ops)
	}
	return c
}

// shapeTwinTypes A and B: backbone elements of different resources share their short type names
// (Patient.contact / Organization.contact, Patient.link / Person.link, Encounter.participant /
// Appointment.participant, Immunization.performer / Procedure.performer). Whatever a library
// remembers per TYPE must be remembered per full type. The two shapes are two different runs of
// every batch, each walking one side of every pair: a forward-order process meets side A first, a
// reverse-order process side B, and a run's outcome must not depend on which came first (the
// process-history part of the self-test).
var twinPairs = [][3]string{{"Patient", "Organization", "contact"}, {"Patient", "Person", "link"}, {"Encounter", "Appointment", "participant"}, {"Immunization", "Procedure", "performer"},
	{"Claim", "ExplanationOfBenefit", "item"}, {"Questionnaire", "QuestionnaireResponse", "item"}, {"MedicationRequest", "MedicationDispense", "substitution"}}

func shapeTwinTypes(side int) func(r rng, tier string) *Case {
	return func(r rng, tier string) *Case {
		var types []string
		seen := map[string]bool{}
		for _, p := range twinPairs {
			if _, err := protoregistry.GlobalTypes.FindMessageByName(protoreflect.FullName(r4 + p[side])); err == nil && !seen[p[side]] {
				types = append(types, p[side])
				seen[p[side]] = true
			}
		}
		g := baseShape(r, tier, fmt.Sprintf("twin-types-%c", 'A'+side), types...)
		c := g.c
		c.Knobs.NoSched = true
		// the backbone element itself must be there
		for _, p := range twinPairs {
			for i, t := range types {
				if t != p[side] {
					continue
				}
				m := g.res[i].ProtoReflect()
				if fd := m.Descriptor().Fields().ByName(protoreflect.Name(p[2])); fd != nil && !m.Has(fd) {
					rg := &resGen{r: r, maxDepth: 3, fill: 0.7, budget: 40}
					rg.fillField(m, fd, 1)
					c.Resources[i] = encodeMessage(g.res[i])
				}
			}
		}
		type pr struct{ prog, res int }
		var progs []pr
		for _, p := range twinPairs {
			ri := -1
			for i, t := range types {
				if t == p[side] {
					ri = i
				}
			}
			if ri < 0 {
				continue
			}
			for _, f := range []string{"%s.%s.children().count()", "%s.%s.descendants().count()", "%s.descendants().count()", "%s.%s.children()", "%s.children().children().count()", "%s.%s.first().children().select($this.toString()).count()"} {
				src := fmt.Sprintf(f, p[side], p[2])
				if strings.Count(f, "%s") == 1 {
					src = fmt.Sprintf(f, p[side])
				}
				c.Programs = append(c.Programs, ProgSpec{Src: src})
				progs = append(progs, pr{len(c.Programs) - 1, ri})
			}
		}
		var ops []Op
		for _, p := range progs {
			ops = append(ops, Op{Kind: "eval", Prog: p.prog, Res: []int{p.res}})
		}
		c.Clients = append(c.Clients, ops)
		return c
	}
}

var shapeTwinTypesA, shapeTwinTypesB = shapeTwinTypes(0), shapeTwinTypes(1)

// shapeBigSets: set-like functions on collections large enough for whatever fast path a library may
// have for them (hashing, sorting, bucketing): the ORDER and content of intersect / exclude /
// distinct / union / combine results is a function of the operands only.
func shapeBigSets(r rng, tier string) *Case {
	g := baseShape(r, tier, "big-sets", "Patient")
	c := g.c
	c.Knobs.SwitchThr = pick(r, []int{0, 77})
	mk := func(kind int, n int) VarSpec {
		vs := VarSpec{Kind: "coll"}
		for i := 0; i < n; i++ {
			var sv *SysVal
			switch kind {
			case kStr:
				sv = &SysVal{"String", pick(r, []string{"ann", "bea", "cy", "dee", "eli", "fay", "gus", "hal", "ida", "jo", "kit", "lou", "max", "ned", "oz", "pam"}) + pick(r, []string{"", "", "", "1", "2"})}
			case kInt:
				sv = &SysVal{"Integer", fmt.Sprint(r.n(24))}
			default:
				sv = &SysVal{"Decimal", fmt.Sprintf("%d.%d", r.n(12), r.n(3))}
			}
			vs.Items = append(vs.Items, VarSpec{Kind: "sys", Sys: sv})
		}
		return vs
	}
	kind := pick(r, []int{kStr, kStr, kInt, kDec})
	c.Vars = []VarSpec{mk(kind, 8+r.n(10)), mk(kind, 8+r.n(10)), mk(kind, 1+r.n(6)), mk(kind, 16+r.n(40))}
	names := []string{"sa", "sb", "sc", "sd"}
	forms := []string{"%%%s.intersect(%%%s)", "%%%s.exclude(%%%s)", "%%%s.union(%%%s)", "%%%s.combine(%%%s).distinct()", "%%%s.intersect(%%%s).first()", "%%%s.intersect(%%%s).last()",
		"%%%s.subsetOf(%%%s)", "%%%s.supersetOf(%%%s)", "%%%s.where($this in %%%s)", "%%%s.intersect(%%%s).count()", "%%%s.exclude(%%%s).skip(1).first()", "%%%s.union(%%%s).tail().take(3)", "%%%s.intersect(%%%s)[1]"}
	unary := []string{"%%%s.distinct()", "%%%s.isDistinct()", "%%%s.distinct().first()", "%%%s.distinct().last()", "%%%s.distinct().count()", "%%%s.distinct().skip(2).take(2)", "%%%s.select($this).distinct()[0]"}
	type pu struct {
		prog int
		a, b int
	}
	var progs []pu
	for i := 0; i < 7; i++ {
		a, b := r.n(4), r.n(4)
		if r.p(0.7) {
			c.Programs = append(c.Programs, ProgSpec{Src: fmt.Sprintf(pick(r, forms), names[a], names[b])})
		} else {
			c.Programs = append(c.Programs, ProgSpec{Src: fmt.Sprintf(pick(r, unary), names[a])})
			b = a
		}
		progs = append(progs, pu{len(c.Programs) - 1, a, b})
	}
	for ci := 0; ci < 1+r.n(3); ci++ {
		var ops []Op
		for oi := 0; oi < 5; oi++ {
			p := pick(r, progs)
			op := Op{Kind: pick(r, []string{"eval", "eval", "eval", "string", "evalmut"}), Prog: p.prog, Res: []int{0}, Opts: []EOpt{{Kind: "var", Name: names[p.a], Var: p.a}}}
			if p.b != p.a {
				op.Opts = append(op.Opts, EOpt{Kind: "var", Name: names[p.b], Var: p.b})
			}
			ops = append(ops, op)
		}
		c.Clients = append(c.Clients, ops)
	}
	return c
}

// shapeCanary is run 0 of every batch: a fixed, broad list of pure expressions evaluated by a
// single client, in a fixed order. In a forward-order process it is the first thing the process
// does (every lazily built table, memo and package-level setting is cold); in the reverse-order
// processes of the self-test it comes last (everything is warm). Its outcome must be the same.
func shapeCanary(r rng, tier string) *Case {
	g := baseShape(r, tier, "canary", "Patient", "Observation")
	c := g.c
	c.Knobs.NoSched = true
	c.Zones = []string{"UTC", "America/St_Johns"}
	for _, src := range []string{
		"1 / 3", "(1 / 3).toString()", "10.0 / 7", "2 / 3 * 3", "22 / 7.0", "1.0 / 3.0 = 0.3333333333333333", "(1 / 3).round(5)",
		"7.5 div 2", "1.0 div 3", "7.5 mod 2", "(1 / 3) + (7.5 div 2)", "1 / 3", "10.0 / 7",
		"'alpha'.matches('^[a-z]+$')", "'Beta'.replaceMatches('[aeiou]', '_')", "'a,b'.replace(',', ';')", "'abc'.substring(1)", "'abc'.indexOf('c')", "'Abc'.upper() & 'x'.lower()",
		// (locale-sensitive letters: what upper()/lower()/matches() do must not depend on the environment of the process)
		"'Quit'.upper() & '/' & 'EXIT'.lower()", "'iIıİ'.upper() & 'iIıİ'.lower()", "'title'.upper().matches('^[A-Z]+$')", "'ǅ ß ſ'.upper() & 'ǅ ẞ'.lower()", "'Irmak' ~ 'irmak'", "1.5.toString() & (0.1 + 0.2).toString()",
		"(5 'mg').toString()", "(3 'mg' + 4 'mg').toString()", "5 'mg' = 5 'mg'", "(1 'kg') > (500 'g')", "1 day + 1 day", "(4 'cm' * 2).toString()",
		"@2020-03-07T12:00:00-03:30 + 1 day", "@2020-03-07T12:00:00.123-03:30 + 1 month", "@2020-10-31T12:00:00-02:30 + 24 hours", "@2020-02-29 + 1 year", "@T10:00:00 + 90 minutes", "@2020-03-07T12:00:00+13:45.toString()",
		"@2020-03-07 < @2020-03-08", "@2020-03-07T12:00:00Z = @2020-03-07T08:30:00-03:30", "'2020-03-07'.toDate()", "'2020-03-07T12:00:00-03:30'.toDateTime()", "'12:30'.toTime()", "'1.50'.toDecimal()", "'5 mg'.toQuantity()",
		"1 is Integer", "1 is System.Integer", "'a' is String", "(5 'mg') is Quantity", "(5 'mg') is System.Quantity", "Observation.value is Quantity", "Patient.active is boolean", "Patient.name.first() is HumanName",
		"Patient.descendants().count()", "Observation.descendants().where($this is dateTime).count()", "Patient.children().distinct().count()", "Patient.name.given.first().toString()", "Patient.id.combine(Observation.id)",
		"iif(true, 1, 2)", "{}.empty()", "(1 = 1) and (2 > 1)", "-5.abs()", "2.power(10)", "16.sqrt()", "2.718.ln()", "100.log(10)", "3.14159.round(2)", "1.5.ceiling() + 1.5.floor()",
	} {
		c.Programs = append(c.Programs, ProgSpec{Src: src})
	}
	var ops []Op
	for pi := range c.Programs {
		ops = append(ops, Op{Kind: "eval", Prog: pi, Res: []int{0, 1}})
	}
	c.Clients = [][]Op{ops}
	return c
}

func shapeClockExact(r rng, tier string) *Case {
	g := baseShape(r, tier, "clock-exact", "Patient")
	c := g.c
	c.Knobs.SwitchThr = 77
	opts := []COpt{{Kind: "fn", Name: "y", Fn: "yield"}}
	c.Programs = []ProgSpec{{Src: "now()", Opts: opts}, {Src: "today()"}, {Src: "timeOfDay()"}, {Src: "Patient.children().select(y()).count()", Opts: opts}}
	for ci := 0; ci < 3; ci++ {
		var ops []Op
		for oi := 0; oi < 4; oi++ {
			op := Op{Kind: "eval", Prog: r.n(4), Res: []int{0}}
			if r.p(0.4) {
				op.Opts = []EOpt{{Kind: "time", TimeMs: pick(r, instantVocabSec)*1000 + int64(r.n(1000)), OffMin: pick(r, []int{0, -210, 765, 330})}}
			}
			ops = append(ops, op)
		}
		c.Clients = append(c.Clients, ops)
	}
	return c
}
