//go:build !race

package verifsim

const raceEnabled = false

func raceDisable()    {}
func raceEnable()     {}
func raceErrors() int { return 0 }
