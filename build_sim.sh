#!/bin/bash
# Builds the simulator test binaries from /repo's current working tree (tag verif) with the
# harness sources in /verif/sim overlaid as the virtual package fhirpath/verifsim.
# usage: build_sim.sh [plain|race|both|all]     (instr = plain: kept for old command lines)
set -euo pipefail
export GOFLAGS=-mod=mod GOPROXY=off GOSUMDB=off GOTOOLCHAIN=local
V=$(cd "$(dirname "$0")" && pwd)
R=${VERIF_REPO:-/repo}
B=${VERIF_BUILD:-$V/build}
mkdir -p "$B"
python3 - "$V" "$R" "$B" <<'PY'
import json,os,sys
v,r,b=sys.argv[1:4]
rep={}
for f in sorted(os.listdir(os.path.join(v,'sim'))):
    if f.endswith('.go'):
        rep[os.path.join(r,'fhirpath/verifsim',f)]=os.path.join(v,'sim',f)
rep[os.path.join(r,'internal/verifyield/yield.go')]=os.path.join(v,'aux/verifyield/yield.go')
json.dump({'Replace':rep},open(os.path.join(b,'overlay.json'),'w'),indent=1)
PY
what=${1:-both}
cd "$R"
# Every binary compiles rewritten copies of the library sources (tools/instrument, reached
# through the overlay; nothing is written into the repository): a call to a hook before every
# statement touching process-wide state (a yield point only in runs that ask for it, worker
# flag -gyields: the "instr" pass of C04), lock-depth tracking (a task is never parked while
# library code of its operation holds a lock), and goroutines / blocking operations of the
# library handed to the simulator's scheduler. If the rewritten sources do not compile (the
# rewriter is syntactic) the binary is built from the sources as they are.
(cd "$V/tools/instrument" && go1.26.8 build -o "$B/instrument" .)
"$B/instrument" -repo "$R" -out "$B/instr" -overlay-in "$B/overlay.json" -overlay-out "$B/overlay_instr.json"
compile() { # compile <output> [extra go flags]
  local out=$1; shift
  if ! go1.26.8 test -c "$@" -vet=off -tags verif -overlay="$B/overlay_instr.json" -o "$out" ./fhirpath/verifsim/ 2>"$B/instr_build.err"; then
    echo "build_sim: the rewritten sources do not compile; building $out from the sources as they are:" >&2
    head -5 "$B/instr_build.err" >&2
    go1.26.8 test -c "$@" -vet=off -tags verif -overlay="$B/overlay.json" -o "$out" ./fhirpath/verifsim/
  fi
}
if [ "$what" = plain ] || [ "$what" = both ] || [ "$what" = all ] || [ "$what" = instr ]; then
  compile "$B/sim.test"
fi
if [ "$what" = race ] || [ "$what" = both ] || [ "$what" = all ]; then
  compile "$B/sim.race.test" -race
fi
