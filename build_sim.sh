#!/bin/bash
# Builds the simulator test binaries from /repo's current working tree (tag verif) with the
# harness sources in /verif/sim overlaid as the virtual package fhirpath/verifsim.
# usage: build_sim.sh [plain|race|both|instr|all]
#   instr: additionally rewrites the library sources (copies, via the overlay) so that a yield
#          point precedes every statement touching process-wide state (tools/instrument)
set -euo pipefail
export GOFLAGS=-mod=mod GOPROXY=off GOSUMDB=off GOTOOLCHAIN=local
V=$(cd "$(dirname "$0")" && pwd)
R=${VERIF_REPO:-/repo}
B=${VERIF_BUILD:-$V/build}
mkdir -p "$B"
python3 - "$V" "$R" "$B" <<'PY'
import json,os,sys
v,r,b=sys.argv[1:4]
rep={}
for f in sorted(os.listdir(os.path.join(v,'sim'))):
    if f.endswith('.go'):
        rep[os.path.join(r,'fhirpath/verifsim',f)]=os.path.join(v,'sim',f)
rep[os.path.join(r,'internal/verifyield/yield.go')]=os.path.join(v,'aux/verifyield/yield.go')
json.dump({'Replace':rep},open(os.path.join(b,'overlay.json'),'w'),indent=1)
PY
what=${1:-both}
cd "$R"
if [ "$what" = plain ] || [ "$what" = both ] || [ "$what" = all ]; then
  go1.26.8 test -c -vet=off -tags verif -overlay="$B/overlay.json" -o "$B/sim.test" ./fhirpath/verifsim/
fi
if [ "$what" = race ] || [ "$what" = both ] || [ "$what" = all ]; then
  go1.26.8 test -c -race -vet=off -tags verif -overlay="$B/overlay.json" -o "$B/sim.race.test" ./fhirpath/verifsim/
fi
if [ "$what" = instr ] || [ "$what" = all ]; then
  (cd "$V/tools/instrument" && go1.26.8 build -o "$B/instrument" .)
  "$B/instrument" -repo "$R" -out "$B/instr" -overlay-in "$B/overlay.json" -overlay-out "$B/overlay_instr.json"
  go1.26.8 test -c -vet=off -tags verif -overlay="$B/overlay_instr.json" -o "$B/sim.instr.test" ./fhirpath/verifsim/
fi
