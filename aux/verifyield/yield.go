// Package verifyield exists only in verification builds (it is overlaid into the
// module by /verif/build_sim.sh). Source files instrumented by /verif/tools/instrument
// call Yield before every statement that touches process-wide state, which gives the
// simulator's scheduler switch points inside a node's Go code.
package verifyield

// Hook is installed by the simulator; nil means "not simulating".
var Hook func(site int)

// Yield is a possible task switch.
func Yield(site int) {
	if h := Hook; h != nil {
		h(site)
	}
}

// LockHook is installed by the simulator; it receives +1 after a lock was taken and -1
// after it was released, so that no task is parked while it holds a lock.
var LockHook func(delta int)

// Locked records a change of the running task's lock depth.
func Locked(delta int) {
	if h := LockHook; h != nil {
		h(delta)
	}
}
