// Package verifyield exists only in verification builds (it is overlaid into the
// module by /verif/build_sim.sh). Source files instrumented by /verif/tools/instrument
// call Yield before every statement that touches process-wide state, which gives the
// simulator's scheduler switch points inside a node's Go code.
package verifyield

// Instrumented is set (by a generated file) in builds whose library sources were rewritten.
var Instrumented bool

// Hook is installed by the simulator; nil means "not simulating".
var Hook func(site int)

// Yield is a possible task switch.
func Yield(site int) {
	if h := Hook; h != nil {
		h(site)
	}
}

// LockHook is installed by the simulator; it receives +1 after a lock was taken and -1
// after it was released, so that no task is parked while it holds a lock.
var LockHook func(delta int)

// Locked records a change of the running task's lock depth.
func Locked(delta int) {
	if h := LockHook; h != nil {
		h(delta)
	}
}

// --- goroutines and blocking operations of the library (instrumented build only) ---

// GoHook is installed by the simulator. It returns true when the simulator has taken the
// function over as a task of its scheduler.
var GoHook func(fn func()) bool

// Go replaces the go statement in instrumented sources.
func Go(fn func()) {
	if h := GoHook; h != nil && h(fn) {
		return
	}
	go fn()
}

// BlockHook / UnblockHook are installed by the simulator.
var (
	BlockHook   func() any
	UnblockHook func(tok any)
	WrapHook    func(fn func()) func()
)

// Blocking precedes an operation that may block outside the scheduler's control (channel
// operation, select, WaitGroup.Wait, time.Sleep). The token identifies the task.
func Blocking() any {
	if h := BlockHook; h != nil {
		return h()
	}
	return nil
}

// Unblocked follows the operation: the task waits here until the scheduler picks it again.
func Unblocked(tok any) {
	if tok == nil {
		return
	}
	if h := UnblockHook; h != nil {
		h(tok)
	}
}

// Wrap makes a function that a timer will run in a goroutine of its own (time.AfterFunc) a
// task of the scheduler.
func Wrap(fn func()) func() {
	if h := WrapHook; h != nil {
		return h(fn)
	}
	return fn
}
