// Package verifyield exists only in verification builds (it is overlaid into the
// module by /verif/build_sim.sh). Source files instrumented by /verif/tools/instrument
// call Yield before every statement that touches process-wide state, which gives the
// simulator's scheduler switch points inside a node's Go code.
package verifyield

// Hook is installed by the simulator; nil means "not simulating".
var Hook func(site int)

// Yield is a possible task switch.
func Yield(site int) {
	if h := Hook; h != nil {
		h(site)
	}
}
