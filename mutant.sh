#!/bin/bash
# Sensitivity helper (not a registered check): builds the simulator against a scratch
# worktree of /repo with a patch applied and runs one mode on it.
# usage: mutant.sh <patch-file|-> <mode> <runs> [plain|race|instr] [seed]   ('-': no patch; REVERT=<commit> reverts a commit instead)
set -u
PATCH=$1; MODE=$2; RUNS=$3; RACE=${4:-plain}; SEED=${5:-1}
V=$(cd "$(dirname "$0")" && pwd)   # a snapshot (git worktree) of /verif works too: the sources next to this script are used
# a small, fixed set of worktree paths: the Go build cache keys on directory names, and a new path
# per invocation filled the disk with 100 GB of cache entries
SLOT=""
for s in a b c d e f; do if mkdir /var/tmp/mutlock_$s 2>/dev/null; then SLOT=$s; break; fi; done
[ -n "$SLOT" ] || { echo "all mutant slots busy"; exit 2; }
WT=/var/tmp/mut_$SLOT
export GOFLAGS=-mod=mod GOPROXY=off GOSUMDB=off GOTOOLCHAIN=local GODEBUG=asynctimerchan=0
git -C /repo worktree remove --force $WT 2>/dev/null
git -C /repo worktree add -q --detach $WT HEAD || { rmdir /var/tmp/mutlock_$SLOT; exit 2; }
cleanup() { git -C /repo worktree remove --force $WT; rm -rf /var/tmp/mutb_$$; rmdir /var/tmp/mutlock_$SLOT; }
trap cleanup EXIT
if [ -n "${REVERT:-}" ]; then (cd $WT && git revert --no-edit -n $REVERT) || exit 2; fi
if [ "$PATCH" != "-" ]; then (cd $WT && git apply "$PATCH") || { echo "patch does not apply"; exit 2; }; fi
(cd $WT && go build ./... ) || { echo "mutant does not build"; exit 2; }
B=/var/tmp/mutb_$$; mkdir -p $B
VERIF_REPO=$WT VERIF_BUILD=$B $V/build_sim.sh $([ "$RACE" = race ] && echo race || ([ "$RACE" = instr ] && echo instr || echo plain)) || exit 2
BIN=$B/sim.test; EXTRA=""
if [ "$RACE" = instr ]; then EXTRA="-gyields"; fi
if [ "$RACE" = race ]; then BIN=$B/sim.race.test; EXTRA="-racelog=$B/race -noref"; export GORACE="log_path=$B/race halt_on_error=0"; fi
NW=${WORKERS:-8}; PER=$((RUNS/NW))
for k in $(seq 0 $((NW-1))); do
  (cd $V && $BIN -test.run='^TestSim$' -mode=$MODE -seed=$SEED -first=$((k*PER)) -runs=$PER -casedir=$B/cases -out=$B/w$k.json $EXTRA >$B/w$k.log 2>&1) &
done
wait; head -c 3000 $B/w0.log; ls $B
python3 - $B $NW <<'PY'
import json,sys,collections
b,n=sys.argv[1],int(sys.argv[2])
cnt=collections.Counter(); first={}; ex=0; infra=[]
for k in range(n):
    try: r=json.load(open('%s/w%d.json'%(b,k)))
    except Exception as e: infra.append(str(e)); continue
    ex+=r['executed']; infra+=r.get('infra') or []
    for key,v in (r.get('violation_counts') or {}).items(): cnt[key]+=v
    for v in r.get('violations') or []:
        key=v['violation']['oracle']+'/'+v['violation']['class']
        if key not in cnt: cnt[key]+=1
        first.setdefault(key,(v['run'],v['violation']['detail'][:700]))
print('executed',ex,'infra',infra[:3])
if not cnt: print('NO VIOLATION')
for k,v in cnt.most_common(8):
    print('VIOL',v,k); print('   run',first.get(k,('?',''))[0],first.get(k,('',''))[1].replace('\n','\n   '))
PY
