#!/bin/bash
# Confirms a seeded change (not a registered check): in a scratch worktree of /repo HEAD
#   1. the patch applies and the library builds, 2. the existing suite passes with it,
#   3. the demonstration fails with it and 4. passes without it.
# usage: seedcheck.sh <dir with patch.diff + demo file> <demo dest path relative to repo> <go test args for the demo...>
set -u
D=$1; DEST=$2; shift 2
export GOFLAGS=-mod=mod GOPROXY=off GOSUMDB=off GOTOOLCHAIN=local
SLOT=""
for s in a b c d; do if mkdir /var/tmp/seedlock_$s 2>/dev/null; then SLOT=$s; break; fi; done
[ -n "$SLOT" ] || { echo "all seedcheck slots busy"; exit 2; }
WT=/var/tmp/seedchk_$SLOT
git -C /repo worktree remove --force $WT 2>/dev/null
git -C /repo worktree add -q --detach $WT HEAD || { rmdir /var/tmp/seedlock_$SLOT; exit 2; }
trap "git -C /repo worktree remove --force $WT; rmdir /var/tmp/seedlock_$SLOT" EXIT
cd $WT
DEMO=$(ls $D | grep -v patch.diff | grep -v README | grep -v meta.json | head -1)
mkdir -p $(dirname $DEST); cp $D/$DEMO $DEST
echo "--- demo WITHOUT patch (expect pass)"; go test -count=1 "$@" 2>&1 | tail -3; A=${PIPESTATUS[0]}
git apply $D/patch.diff || { echo "PATCH DOES NOT APPLY"; exit 2; }
go build ./... || { echo "DOES NOT BUILD"; exit 2; }
echo "--- demo WITH patch (expect fail)"; go test -count=1 "$@" 2>&1 | tail -6; B=${PIPESTATUS[0]}
rm $DEST
echo "--- existing suite WITH patch (expect pass)"; go test -count=1 ./... 2>&1 | grep -v "^ok\|no test files" | tail -5; C=${PIPESTATUS[0]}
echo "RESULT demo_without=$A demo_with=$B suite_with=$C  (want 0 / nonzero / 0)"
